(* Specification side of the declarator model.
   - D : token-level mirror of types.py _format_declarator / format_decl (the
     inside-out declarator printer; outer constructor first, declarator text
     accumulated, parentheses when a suffix is attached to a prefixed text).
   - layers / P : the same text described from the inner end (the order in
     which the parser meets the constructors); DP_eq relates the two.
   - wf : the C++ legality rules of the type trees the theorems quantify over. *)
From Coq Require Import NArith List Bool.
Import ListNotations.
From CXV Require Import Gen.TokTy Gen.ParserTables Parse.Balanced Parse.BalancedThms Parse.Declarator.
Open Scope N_scope.

Definition ktok (c : N) : tk := mkTk c 0.
Definition cvtoks (c v : bool) : list tk :=
  (if c then [ktok T_const] else []) ++ (if v then [ktok T_volatile] else []).
Definition paren (p : bool) (d : list tk) : list tk := if p then ktok LP :: d ++ [ktok RP] else d.
Definition name_toks (nm : option N) : list tk :=
  match nm with Some n => [mkTk T_NAME n] | None => [] end.

Fixpoint base_of (t : ty) : N * bool * bool :=
  match t with
  | TBase b c v => (b, c, v)
  | TPtr t _ _ | TRef t | TRRef t | TArr t _ | TFn t _ _ => base_of t
  end.

(* Type.format(): const volatile name *)
Definition base_toks (t : ty) : list tk :=
  let '(b, c, v) := base_of t in
  cvtoks c v ++ [if b =? 0 then ktok T_void else mkTk T_NAME b].

Fixpoint join_comma (l : list (list tk)) : list tk :=
  match l with
  | [] => []
  | [x] => x
  | x :: r => x ++ ktok COMMA :: join_comma r
  end.

Definition va_toks (va : bool) : list (list tk) := if va then [[ktok T_ELLIPSIS]] else [].

Fixpoint D (t : ty) (d : list tk) (pfx : bool) {struct t} : list tk :=
  match t with
  | TBase _ _ _ => d
  | TPtr t c v => D t (ktok STAR :: cvtoks c v ++ d) true
  | TRef t => D t (ktok AMP :: d) true
  | TRRef t => D t (ktok T_DBL_AMP :: d) true
  | TArr t s => D t (paren pfx d ++ ktok LB :: s ++ [ktok RB]) false
  | TFn r ps va =>
      let pts := (fix go (ps : list (ty * option N)) : list (list tk) :=
                    match ps with
                    | [] => []
                    | (t, nm) :: q => (base_toks t ++ D t (name_toks nm) false) :: go q
                    end) ps in
      D r (paren pfx d ++ ktok LP :: join_comma (pts ++ va_toks va) ++ [ktok RP]) false
  end.

(* format() of a function argument object / format_decl(name) *)
Definition decl_toks (t : ty) (nm : option N) : list tk := base_toks t ++ D t (name_toks nm) false.
Definition params_toks (ps : list (ty * option N)) (va : bool) : list tk :=
  join_comma (map (fun p => decl_toks (fst p) (snd p)) ps ++ va_toks va).

Lemma D_fn r ps va d pfx :
  D (TFn r ps va) d pfx = D r (paren pfx d ++ ktok LP :: params_toks ps va ++ [ktok RP]) false.
Proof.
  cbn [D]. unfold params_toks.
  match goal with |- D r (_ ++ _ :: join_comma (?g ps ++ _) ++ _) _ = _ =>
    assert (E : g ps = map (fun p => decl_toks (fst p) (snd p)) ps) end.
  { induction ps as [|[t nm] q IH]; [reflexivity|]. cbn [map fst snd]. now rewrite IH. }
  now rewrite E.
Qed.

(* ------------------------------------------------------------------ *)
(* the inner-end view *)

Inductive layer :=
| LPtr (c v : bool) | LRef | LRRef
| LArr (s : list tk)
| LFn (ps : list (ty * option N)) (va : bool).

Definition wrap1 (a : ty) (l : layer) : ty :=
  match l with
  | LPtr c v => TPtr a c v | LRef => TRef a | LRRef => TRRef a
  | LArr s => TArr a s | LFn ps va => TFn a ps va
  end.
Definition wrap (a : ty) (ls : list layer) : ty := fold_left wrap1 ls a.

Definition is_pfx (l : layer) : bool :=
  match l with LPtr _ _ | LRef | LRRef => true | _ => false end.
Definition starts_pfx (ls : list layer) : bool :=
  match ls with l :: _ => is_pfx l | [] => false end.

Fixpoint P (ls : list layer) (core : list tk) : list tk :=
  match ls with
  | [] => core
  | LPtr c v :: r => ktok STAR :: cvtoks c v ++ P r core
  | LRef :: r => ktok AMP :: P r core
  | LRRef :: r => ktok T_DBL_AMP :: P r core
  | LArr s :: r => paren (starts_pfx r) (P r core) ++ ktok LB :: s ++ [ktok RB]
  | LFn ps va :: r => paren (starts_pfx r) (P r core) ++ ktok LP :: params_toks ps va ++ [ktok RP]
  end.

(* inner-first layers of a type *)
Fixpoint layers (t : ty) : list layer :=
  match t with
  | TBase _ _ _ => []
  | TPtr t c v => layers t ++ [LPtr c v]
  | TRef t => layers t ++ [LRef]
  | TRRef t => layers t ++ [LRRef]
  | TArr t s => layers t ++ [LArr s]
  | TFn r ps va => layers r ++ [LFn ps va]
  end.

Definition base_ty (t : ty) : ty := let '(b, c, v) := base_of t in TBase b c v.

Lemma wrap_layers t : wrap (base_ty t) (layers t) = t.
Proof.
  unfold wrap, base_ty.
  induction t as [b c v|t IH c v|t IH|t IH|t IH s|r IH ps va]; cbn [layers base_of];
    try reflexivity; rewrite fold_left_app; cbn [fold_left wrap1]; now rewrite IH.
Qed.

Lemma DP_eq t : forall outer core,
  D t (P outer core) (starts_pfx outer) = P (layers t ++ outer) core.
Proof.
  induction t as [b c v|t IH c v|t IH|t IH|t IH s|r IH ps va]; intros outer core.
  - reflexivity.
  - cbn [D layers]. rewrite <- app_assoc. cbn [app]. now rewrite <- IH.
  - cbn [D layers]. rewrite <- app_assoc. cbn [app]. now rewrite <- IH.
  - cbn [D layers]. rewrite <- app_assoc. cbn [app]. now rewrite <- IH.
  - cbn [D layers]. rewrite <- app_assoc. cbn [app]. now rewrite <- IH.
  - rewrite D_fn. cbn [layers]. rewrite <- app_assoc. cbn [app]. now rewrite <- IH.
Qed.

Lemma D_is_P t core : D t core false = P (layers t) core.
Proof. rewrite <- (app_nil_r (layers t)). exact (DP_eq t [] core). Qed.

(* ------------------------------------------------------------------ *)
(* legality: the C++ rules (no pointer to reference, no reference to
   reference, no array of references or functions, no function returning an
   array or a function), sizes and parameter lists bracket-balanced *)

Inductive kd := KB | KRef | KArr | KFn.
Definition kind_of (t : ty) : kd :=
  match t with
  | TBase _ _ _ | TPtr _ _ _ => KB
  | TRef _ | TRRef _ => KRef
  | TArr _ _ => KArr
  | TFn _ _ _ => KFn
  end.
Definition kind_after (l : layer) : kd :=
  match l with LPtr _ _ => KB | LRef | LRRef => KRef | LArr _ => KArr | LFn _ _ => KFn end.

Definition okl (k : kd) (l : layer) : bool :=
  match k, l with
  | KB, _ => true
  | KRef, LFn _ _ => true
  | KRef, _ => false
  | KArr, (LPtr _ _ | LRef | LRRef | LArr _) => true
  | KArr, _ => false
  | KFn, (LPtr _ _ | LRef | LRRef) => true
  | KFn, _ => false
  end.

Fixpoint legalL (k : kd) (ls : list layer) : bool :=
  match ls with
  | [] => true
  | l :: r => okl k l && legalL (kind_after l) r
  end.

(* what may follow a complete declarator *)
Definition follow_ok (rest : list tk) : bool :=
  match rest with
  | t :: _ => negb (is STAR t || is AMP t || is T_DBL_AMP t || is T_const t || is T_volatile t
                    || is LP t || is LB t || is T_NAME t || is T_ELLIPSIS t || is EQ t)
  | [] => true
  end.

(* ------------------------------------------------------------------ *)
(* the type trees the theorems quantify over: the C++ rules, on the tree *)

Notation SNk := (SN tk kty).

Definition not_lone_void (t : ty) : Prop := match t with TBase 0 _ _ => False | _ => True end.
(* the type of a variable or parameter: not a function type, not plain void *)
Definition obj_ty (t : ty) : Prop := kind_of t <> KFn /\ not_lone_void t.

Fixpoint wf (t : ty) : Prop :=
  match t with
  | TBase _ _ _ => True
  | TPtr t _ _ => wf t /\ kind_of t <> KRef                 (* no pointer to reference *)
  | TRef t | TRRef t => wf t /\ kind_of t <> KRef           (* no reference to reference *)
  | TArr t s => wf t /\ (kind_of t = KB \/ kind_of t = KArr) /\ SNk s   (* no array of references or functions *)
  | TFn r ps va =>
      wf r /\ (kind_of r = KB \/ kind_of r = KRef) /\       (* no function returning array or function *)
      (fix all (ps : list (ty * option N)) : Prop :=
         match ps with
         | [] => True
         | (t, _) :: q => (wf t /\ obj_ty t) /\ all q
         end) ps
  end.

Lemma wf_fn r ps va :
  wf (TFn r ps va) <->
  wf r /\ (kind_of r = KB \/ kind_of r = KRef) /\ Forall (fun p => wf (fst p) /\ obj_ty (fst p)) ps.
Proof.
  cbn [wf]. split; intros (H1 & H2 & H3); (split; [exact H1|split; [exact H2|]]).
  - induction ps as [|[t nm] q IH]; [constructor|]. destruct H3 as [Ht Hq]. constructor; [exact Ht|now apply IH].
  - induction ps as [|[t nm] q IH]; [exact I|]. inversion H3 as [|? ? Ht Hq]; subst. split; [exact Ht|now apply IH].
Qed.

(* induction over type trees, parameters included *)
Lemma ty_ind' (Q : ty -> Prop) :
  (forall b c v, Q (TBase b c v)) ->
  (forall t c v, Q t -> Q (TPtr t c v)) ->
  (forall t, Q t -> Q (TRef t)) ->
  (forall t, Q t -> Q (TRRef t)) ->
  (forall t s, Q t -> Q (TArr t s)) ->
  (forall r ps va, Q r -> Forall (fun p => Q (fst p)) ps -> Q (TFn r ps va)) ->
  forall t, Q t.
Proof.
  intros Hb Hp Hr Hrr Ha Hf. fix IH 1. intros [b c v|t c v|t|t|t s|r ps va].
  - apply Hb.
  - apply Hp, IH.
  - apply Hr, IH.
  - apply Hrr, IH.
  - apply Ha, IH.
  - apply Hf; [apply IH|].
    induction ps as [|[p nm] q IHq]; constructor; [apply IH|exact IHq].
Qed.

(* Initialisers of variables and fields, as CxxParser._parse_field reads them
   after the declarator: `= expr` (read by _consume_value_until(",", ";")) or a
   brace initialiser `{ ... }` (a balanced group, braces included); a typedef
   takes neither.  With the declarator loop this gives variable statements
   with initialisers.  Bit-fields are outside this model.
   Tied to the code by the differential run of harness/props/c01.py. *)
From Coq Require Import NArith List Bool Lia.
Import ListNotations.
From CXV Require Import Gen.TokTy Gen.ParserTables Parse.Balanced Parse.BalancedThms Parse.Declarator Parse.DeclSpec Parse.DeclThms
  Parse.EnumList Parse.Specs Parse.VarStmt.
Open Scope N_scope.

Definition init_terms : list N := [COMMA; SEMI].

Definition init_part (is_typedef : bool) (toks : list tk) : dres (option (list tk) * list tk) :=
  match toks with
  | t :: r =>
      if is EQ t then
        if is_typedef then DErr 1
        else match consume_value_until kty init_terms r with
             | Ok (v, r') => DOk (Some v, r')
             | ErrEOF => DErr 2
             | ErrUnexpected _ => DErr 1
             | ErrInternal => DErr 3
             end
      else if is LBRACE t then
        if is_typedef then DErr 1
        else lift (consume kty [RBRACE] [t] r) (fun grp r' => DOk (Some grp, r'))
      else DOk (None, toks)
  | [] => DOk (None, toks)
  end.

(* the declarator loop with initialisers *)
Fixpoint decl_list_i (n : nat) (fuel : nat) (is_typedef : bool) (b : ty) (toks : list tk)
  : dres (list (N * ty * option (list tk)) * list tk) :=
  match n with
  | O => DErr 9
  | S n' =>
      match var_tail fuel b toks with
      | DErr e => DErr e
      | DOk (nm, d, r) =>
          match init_part is_typedef r with
          | DErr e => DErr e
          | DOk (iv, r0) =>
              match r0 with
              | s :: r' =>
                  if is COMMA s then
                    match decl_list_i n' fuel is_typedef b r' with
                    | DOk (l, r'') => DOk ((nm, d, iv) :: l, r'')
                    | DErr e => DErr e
                    end
                  else if is SEMI s then DOk ([(nm, d, iv)], r')
                  else DErr 1
              | [] => DErr 2
              end
          end
      end
  end.

Definition var_stmt_i (n fuel : nat) (toks : list tk) : dres (mods * list (N * ty * option (list tk)) * list tk) :=
  match parse_specs toks with
  | DErr e => DErr e
  | DOk (m, b, r) =>
      if validate true false m && negb (m_mutable m) then
        match decl_list_i n fuel false (TBase b (m_const m) (m_volatile m)) r with
        | DOk (l, r') => DOk (m, l, r')
        | DErr e => DErr e
        end
      else DErr 3
  end.

(* ------------------------------------------------------------------ *)
(* printed initialisers *)

Inductive init :=
| NoInit
| InitEq (e : list tk)          (* = e *)
| InitBrace (soup : list tk).   (* { soup } *)

Definition init_toks (i : init) : list tk :=
  match i with
  | NoInit => []
  | InitEq e => ktok EQ :: e
  | InitBrace soup => ktok LBRACE :: soup ++ [ktok RBRACE]
  end.

Definition init_value (i : init) : option (list tk) :=
  match i with
  | NoInit => None
  | InitEq e => Some e
  | InitBrace soup => Some (ktok LBRACE :: soup ++ [ktok RBRACE])
  end.

Definition init_ok (i : init) : Prop :=
  match i with
  | NoInit => True
  | InitEq e => Expr tk kty init_terms e
  | InitBrace soup => SNk soup
  end.

Lemma init_part_rt i sep rest :
  init_ok i -> (is COMMA sep = true \/ is SEMI sep = true) ->
  init_part false (init_toks i ++ sep :: rest) = DOk (init_value i, sep :: rest).
Proof.
  intros Hi Hsep.
  assert (Hstop : stops_at tk kty init_terms (sep :: rest)).
  { cbn [stops_at init_terms memN]. unfold is in Hsep. destruct Hsep as [H|H].
    - apply N.eqb_eq in H. rewrite H. reflexivity.
    - apply N.eqb_eq in H. rewrite H. reflexivity. }
  assert (Hne : is EQ sep = false /\ is LBRACE sep = false).
  { unfold is in *. destruct Hsep as [H|H]; apply N.eqb_eq in H; rewrite H; split; reflexivity. }
  destruct i as [|e|soup]; cbn [init_toks init_value app init_part].
  - destruct Hne as [E1 E2]. now rewrite E1, E2.
  - change (is EQ (ktok EQ)) with true. cbn iota.
    now rewrite (value_is_whole tk kty init_terms e (sep :: rest) Hi Hstop).
  - change (is EQ (ktok LBRACE)) with false. change (is LBRACE (ktok LBRACE)) with true. cbn iota.
    rewrite <- app_assoc. cbn [app].
    pose proof (consume_balanced_exact tk kty (ktok LBRACE) (ktok RBRACE) RBRACE soup (sep :: rest)) as H.
    unfold consume_balanced in H. cbn [map rev app] in H.
    change (assocN (kty (ktok LBRACE)) balanced_token_map) with (Some RBRACE) in H.
    rewrite H; [reflexivity|reflexivity|vm_compute; discriminate|reflexivity|exact Hi].
Qed.

Definition item := (list layer * N * init)%type.
Definition item_toks (it : item) : list tk := P (fst (fst it)) [mkTk T_NAME (snd (fst it))] ++ init_toks (snd it).
Definition item_ok (it : item) : Prop :=
  legalL KB (fst (fst it)) = true /\ Forall layer_ok (fst (fst it)) /\ kind_end KB (fst (fst it)) <> KFn /\ init_ok (snd it).

Lemma init_head_ok i sep rest : (is COMMA sep = true \/ is SEMI sep = true) ->
  stops (init_toks i ++ sep :: rest) = true /\ nolb (init_toks i ++ sep :: rest) = true /\ nolp (init_toks i ++ sep :: rest) = true.
Proof.
  intros Hsep. destruct i as [|e|soup]; cbn [init_toks app]; try (repeat split; reflexivity).
  unfold is in Hsep. destruct Hsep as [H|H]; apply N.eqb_eq in H;
    (destruct sep as [k vv]; cbn [kty] in H; subst k; repeat split; reflexivity).
Qed.

Lemma decl_list_i_rt b c v : forall items rest,
  items <> [] -> Forall item_ok items ->
  ev (fun f => decl_list_i (length items) f false (TBase b c v)
                 (join_comma (map item_toks items) ++ ktok SEMI :: rest))
     (DOk (map (fun it => (snd (fst it), wrap (TBase b c v) (fst (fst it)), init_value (snd it))) items, rest)).
Proof.
  induction items as [|[[ls n] i] q IH]; intros rest Hne Hall; [contradiction|].
  inversion Hall as [|? ? (Hleg & Hok & Hk & Hi) Hq]; subst. cbn [fst snd] in *.
  destruct q as [|it2 q'].
  - cbn [map join_comma length]. unfold item_toks at 1. cbn [fst snd]. rewrite <- app_assoc.
    destruct (init_head_ok i (ktok SEMI) rest (or_intror eq_refl)) as (S1 & S2 & S3).
    destruct (var_tail_layers_w b c v ls n (init_toks i ++ ktok SEMI :: rest) Hleg Hok Hk S1 S2 S3) as [f1 H1].
    exists f1. intros f Hge. cbn [decl_list_i]. rewrite H1 by lia.
    rewrite (init_part_rt i (ktok SEMI) rest Hi (or_intror eq_refl)). isc. reflexivity.
  - change (map item_toks ((ls, n, i) :: it2 :: q')) with (item_toks (ls, n, i) :: map item_toks (it2 :: q')).
    assert (Ej : forall x y l, join_comma (x :: y :: l) = x ++ ktok COMMA :: join_comma (y :: l)) by reflexivity.
    change (map item_toks (it2 :: q')) with (item_toks it2 :: map item_toks q').
    rewrite Ej. change (item_toks it2 :: map item_toks q') with (map item_toks (it2 :: q')).
    unfold item_toks at 1. cbn [fst snd]. rewrite <- !app_assoc. cbn [app].
    set (R := join_comma (map item_toks (it2 :: q')) ++ ktok SEMI :: rest).
    destruct (init_head_ok i (ktok COMMA) R (or_introl eq_refl)) as (S1 & S2 & S3).
    destruct (var_tail_layers_w b c v ls n (init_toks i ++ ktok COMMA :: R) Hleg Hok Hk S1 S2 S3) as [f1 H1].
    destruct (IH rest ltac:(discriminate) Hq) as [f2 H2].
    exists (Nat.max f1 f2). intros f Hge.
    change (length ((ls, n, i) :: it2 :: q')) with (S (length (it2 :: q'))). cbn [decl_list_i].
    rewrite H1 by lia. rewrite (init_part_rt i (ktok COMMA) R Hi (or_introl eq_refl)). isc.
    unfold R. rewrite H2 by lia. reflexivity.
Qed.

(* `spec* T spec* d1 [init], ..., dn [init];` *)
Theorem var_stmt_i_roundtrip pre post b items rest :
  forallb spec_kw pre = true -> forallb spec_kw post = true ->
  has T_explicit (pre ++ post) = false -> has T_virtual (pre ++ post) = false -> has T_mutable (pre ++ post) = false ->
  items <> [] -> Forall item_ok items ->
  ev (fun f => var_stmt_i (length items) f
                 (kw_toks pre ++ nm_tok b :: kw_toks post ++ join_comma (map item_toks items) ++ ktok SEMI :: rest))
     (DOk (apply_kws (pre ++ post) mods0,
           map (fun it => (snd (fst it),
                           wrap (TBase b (m_const (apply_kws (pre ++ post) mods0)) (m_volatile (apply_kws (pre ++ post) mods0))) (fst (fst it)),
                           init_value (snd it))) items,
           rest)).
Proof.
  intros Hpre Hpost Hex Hvi Hmu Hne Hall.
  set (m := apply_kws (pre ++ post) mods0).
  destruct (decl_list_i_rt b (m_const m) (m_volatile m) items rest Hne Hall) as [f1 H1].
  assert (Hk : forallb spec_kw (pre ++ post) = true) by (rewrite forallb_app; now rewrite Hpre, Hpost).
  assert (Hval : validate true false m && negb (m_mutable m) = true) by (apply validate_ns_ok; assumption).
  assert (Hstop : spec_stop (join_comma (map item_toks items) ++ ktok SEMI :: rest) = true).
  { destruct items as [|[[ls n] i] q]; [contradiction|]. cbn [map].
    destruct (map item_toks q) as [|y l].
    - cbn [join_comma]. unfold item_toks. cbn [fst snd]. rewrite <- app_assoc. apply P_head_stop.
    - change (join_comma (item_toks (ls, n, i) :: y :: l)) with (item_toks (ls, n, i) ++ ktok COMMA :: join_comma (y :: l)).
      unfold item_toks at 1. cbn [fst snd]. rewrite <- !app_assoc. apply P_head_stop. }
  exists f1. intros f Hge. unfold var_stmt_i.
  rewrite (specs_decode_lemma pre post b _ Hpre Hpost Hstop). rewrite apply_kws_app. fold m.
  rewrite Hval. rewrite H1 by lia. reflexivity.
Qed.

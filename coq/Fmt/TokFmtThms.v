(* C16: re-lexing tokfmt's output.  The statements over the representative
   table are FINITE (the alphabet and the length bound are in the statement)
   and decided by vm_compute over the regenerated lexer rules, spacing table
   and fuse pairs. *)
From Coq Require Import NArith ZArith List Bool.
Import ListNotations.
From CXV Require Import Gen.TokTy Gen.TokFmtTable Gen.StreamTables Gen.Reps Lex.PlyLoop Stream.TokBuf Stream.TokBufThms Fmt.TokFmt.
Open Scope N_scope.

(* the significant logical tokens (type, text) of the formatted text *)
Definition relex (toks : list vtok) : list vtok := abs (stream_of [102] (tokfmt toks)).

Fixpoint vtok_eqb (a b : list vtok) : bool :=
  match a, b with
  | [], [] => true
  | (t1, v1) :: a', (t2, v2) :: b' => (t1 =? t2) && list_eqb v1 v2 && vtok_eqb a' b'
  | _, _ => false
  end.

Lemma list_eqb_eq : forall a b, list_eqb a b = true -> a = b.
Proof.
  induction a as [|x a IH]; destruct b as [|y b]; cbn [list_eqb]; intros H; try discriminate; [reflexivity|].
  apply andb_prop in H as [H1 H2]. apply N.eqb_eq in H1. subst. f_equal. now apply IH.
Qed.

Lemma vtok_eqb_eq : forall a b, vtok_eqb a b = true -> a = b.
Proof.
  induction a as [|[t1 v1] a IH]; destruct b as [|[t2 v2] b]; cbn [vtok_eqb]; intros H; try discriminate; [reflexivity|].
  apply andb_prop in H as [H H3]. apply andb_prop in H as [H1 H2].
  apply N.eqb_eq in H1. apply list_eqb_eq in H2. subst. f_equal. now apply IH.
Qed.

Definition relex_ok (toks : list vtok) : bool := vtok_eqb (relex toks) toks.

Lemma forallb2_spec {A} (f : A -> A -> bool) (l : list A) :
  forallb (fun a => forallb (f a) l) l = true -> forall a b, In a l -> In b l -> f a b = true.
Proof.
  intros H a b Ha Hb. rewrite forallb_forall in H. specialize (H a Ha).
  rewrite forallb_forall in H. exact (H b Hb).
Qed.

Lemma forallb3_spec {A} (f : A -> A -> A -> bool) (l : list A) :
  forallb (fun a => forallb (fun b => forallb (f a b) l) l) l = true ->
  forall a b c, In a l -> In b l -> In c l -> f a b c = true.
Proof.
  intros H a b c Ha Hb Hc. rewrite forallb_forall in H. specialize (H a Ha).
  rewrite forallb_forall in H. specialize (H b Hb). rewrite forallb_forall in H. exact (H c Hc).
Qed.

(* every single representative and every ordered pair of representatives *)
Definition single_ok (a : vtok) : bool := relex_ok [a].
Definition pair_ok (a b : vtok) : bool := relex_ok [a; b].
Definition triple_ok (a b c : vtok) : bool := relex_ok [a; b; c].

Lemma singles_ok_true : forallb single_ok reps = true.
Proof. vm_compute. reflexivity. Qed.
Lemma pairs_ok_true : forallb (fun a => forallb (pair_ok a) reps) reps = true.
Proof. vm_compute. reflexivity. Qed.
Lemma triples_ok_true :
  forallb (fun a => forallb (fun b => forallb (triple_ok a b) class_reps) class_reps) class_reps = true.
Proof. vm_compute. reflexivity. Qed.

Lemma single_ok_all a : In a reps -> single_ok a = true.
Proof. intros Ha. pose proof singles_ok_true as H. rewrite forallb_forall in H. exact (H a Ha). Qed.
Lemma pair_ok_all : forall a b, In a reps -> In b reps -> pair_ok a b = true.
Proof. exact (forallb2_spec pair_ok reps pairs_ok_true). Qed.
Lemma triple_ok_all : forall a b c, In a class_reps -> In b class_reps -> In c class_reps -> triple_ok a b c = true.
Proof. exact (forallb3_spec triple_ok class_reps triples_ok_true). Qed.

Theorem relex_single_lemma a : In a reps -> relex [a] = [a].
Proof. intros Ha. apply vtok_eqb_eq. change (single_ok a = true). now apply single_ok_all. Qed.

Theorem relex_pairs_lemma a b : In a reps -> In b reps -> relex [a; b] = [a; b].
Proof. intros Ha Hb. apply vtok_eqb_eq. change (pair_ok a b = true). now apply pair_ok_all. Qed.

(* every sequence of length 3 over one representative per token class *)
Theorem relex_triples_lemma a b c :
  In a class_reps -> In b class_reps -> In c class_reps -> relex [a; b; c] = [a; b; c].
Proof. intros Ha Hb Hc. apply vtok_eqb_eq. change (triple_ok a b c = true). now apply triple_ok_all. Qed.

(* structure of the output for sequences of ANY length: the values in order,
   each preceded by nothing or exactly one blank; nothing else is emitted *)
Fixpoint strip_layout (seps : list bool) (toks : list vtok) : list N :=
  match seps, toks with
  | sp :: seps', t :: r => (if sp then [32] else []) ++ snd t ++ strip_layout seps' r
  | _, _ => []
  end.

Theorem tokfmt_structure_lemma : forall toks last prev,
  exists seps, length seps = length toks /\ tokfmt_go last prev toks = strip_layout seps toks.
Proof.
  induction toks as [|t r IH]; intros last prev.
  - exists []. split; reflexivity.
  - cbn [tokfmt_go]. destruct (spacing t) as [l rr].
    destruct (IH rr (snd t)) as [seps [Hl Hs]].
    exists (((3 <=? l + last) || (negb (match prev with [] => true | _ => false end) && fuses prev (snd t))) :: seps).
    split; [cbn; now rewrite Hl|]. cbn [strip_layout]. now rewrite Hs.
Qed.

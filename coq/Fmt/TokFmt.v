(* Hand-written mirror of cxxheaderparser/tokfmt.py: tokfmt and _fuses (their
   bodies are pinned by text in translate/gen_tokfmt.py; the spacing table and
   the fuse pairs are regenerated: Gen/TokFmtTable.v). *)
From Coq Require Import NArith ZArith List Bool.
Import ListNotations.
From CXV Require Import Gen.TokTy Gen.TokFmtTable Gen.StreamTables Lex.PlyLoop Stream.TokBuf.
Open Scope N_scope.

Definition vtok : Type := (N * list N)%type.   (* (type, value) *)

Definition is_digit (c : N) : bool := (48 <=? c) && (c <=? 57).
Definition is_alnum (c : N) : bool :=
  is_digit c || ((65 <=? c) && (c <=? 90)) || ((97 <=? c) && (c <=? 122)).
Definition is_word (c : N) : bool := is_alnum c || (c =? 95).

Fixpoint last_chr (l : list N) : option N :=
  match l with [] => None | [c] => Some c | _ :: r => last_chr r end.

Fixpoint mem_pair (a b : N) (l : list (N * N)) : bool :=
  match l with [] => false | (x, y) :: r => ((a =? x) && (b =? y)) || mem_pair a b r end.

Definition opt_test (f : N -> bool) (o : option N) : bool := match o with Some c => f c | None => false end.

(* _fuses(prev, value) *)
Definition fuses (prev value : list N) : bool :=
  let a := last_chr prev in
  let b := hd_error value in
  (match a, b with Some x, Some y => mem_pair x y fuse_pairs | _, _ => false end)
  || (opt_test is_word a && opt_test is_word b)
  || (opt_test (N.eqb 46) b &&
      (opt_test is_digit (hd_error prev) ||
       (opt_test (N.eqb 46) (hd_error prev) && opt_test is_digit (hd_error (tl prev)))))
  || (list_eqb prev [46] && opt_test is_digit b).

Fixpoint assoc2 (x : N) (l : list (N * (N * N))) : option (N * N) :=
  match l with [] => None | (k, v) :: r => if x =? k then Some v else assoc2 x r end.

Definition str_operator : list N := [111; 112; 101; 114; 97; 116; 111; 114].

Definition spacing (t : vtok) : N * N :=
  if list_eqb (snd t) str_operator then (2, 0)
  else match assoc2 (fst t) want_spacing with Some v => v | None => (0, 0) end.

Fixpoint tokfmt_go (last : N) (prev : list N) (toks : list vtok) : list N :=
  match toks with
  | [] => []
  | t :: r =>
      let '(l, rr) := spacing t in
      let sp := (3 <=? l + last) || (negb (match prev with [] => true | _ => false end) && fuses prev (snd t)) in
      (if sp then [32] else []) ++ snd t ++ tokfmt_go rr (snd t) r
  end.

Definition tokfmt (toks : list vtok) : list N := tokfmt_go 0 [] toks.


(* Model of _ply/lex.py: Lexer.token's loop over the master regex, with the
   actions of cxxheaderparser/lexer.py's t_* functions (rules, order and
   actions are regenerated: Gen/LexRules.v).  Hand-written parts: the loop and
   the '#line' recogniser (mirror of _line_re), validated by correspondence. *)
From Coq Require Import NArith ZArith List Bool.
Import ListNotations.
From CXV Require Import Gen.TokTy Base.Regex Gen.LexRules.
Open Scope N_scope.

Record lstate := mkL { lineno : N; line_off : Z; fname : list N }.

Definition loc_of (st : lstate) : list N * Z := (fname st, (Z.of_N (lineno st) - line_off st)%Z).

Inductive piece :=
| PTok (ty : N) (text : list N) (line : N) (loc : list N * Z)
| PIgn (c : N)
| PDrop (text : list N).

Definition piece_text (p : piece) : list N :=
  match p with PTok _ t _ _ => t | PIgn c => [c] | PDrop t => t end.

(* error kinds: 0 illegal character, 1..4 the rule errors, 5 #define, 6 other preprocessor *)
Inductive outcome :=
| Done
| Failed (kind : N) (loc : list N * Z) (at_text : list N)
| OutOfFuel.

Fixpoint first_match (rs : list (rx * action)) (s : list N) : option (action * list N) :=
  match rs with
  | [] => None
  | (r, a) :: rs' =>
      match match_prefix r s with
      | Some rest => Some (a, rest)
      | None => first_match rs' s
      end
  end.

Definition firstn_len {A} (l : list A) (rest : list A) : list A :=
  (* the prefix of l that is left when [rest] (a suffix) is cut off *)
  firstn (length l - length rest) l.

Fixpoint count_nl (l : list N) : N :=
  match l with [] => 0 | c :: r => (if c =? 10 then 1 else 0) + count_nl r end.

Fixpoint list_eqb (a b : list N) : bool :=
  match a, b with
  | [], [] => true
  | x :: a', y :: b' => (x =? y) && list_eqb a' b'
  | _, _ => false
  end.

Fixpoint assoc_str (w : list N) (l : list (list N * N)) : option N :=
  match l with [] => None | (k, v) :: r => if list_eqb w k then Some v else assoc_str w r end.

Fixpoint assoc_chr (c : N) (l : list (N * N)) : option N :=
  match l with [] => None | (k, v) :: r => if c =? k then Some v else assoc_chr c r end.

Fixpoint starts_with (p s : list N) : bool :=
  match p, s with
  | [], _ => true
  | x :: p', y :: s' => (x =? y) && starts_with p' s'
  | _, [] => false
  end.

Fixpoint contains (p s : list N) : bool :=
  match s with
  | [] => match p with [] => true | _ => false end
  | _ :: s' => starts_with p s || contains p s'
  end.

(* ---- the line directive: hash, blanks, optional word line, one space, digits,
   one space, a quoted file name running to the last double quote (mirror of _line_re) *)
Definition is_ws (c : N) : bool := (c =? 9) || (c =? 32).

Fixpoint digit_val (c : N) (l : list (N * N)) : option N :=
  match l with
  | [] => None
  | (lo, hi) :: r => if (lo <=? c) && (c <=? hi) then Some ((c - lo) mod 10) else digit_val c r
  end.

Fixpoint read_digits (acc : N) (n : nat) (s : list N) : N * nat * list N :=
  match s with
  | c :: r => match digit_val c digit_ranges with
              | Some d => read_digits (acc * 10 + d) (S n) r
              | None => (acc, n, s)
              end
  | [] => (acc, n, s)
  end.

Fixpoint skip_ws (last : N) (s : list N) : N * list N :=
  (* returns the last white-space char skipped (0 if none) and the rest *)
  match s with
  | c :: r => if is_ws c then skip_ws c r else (last, s)
  | [] => (last, s)
  end.

Fixpoint last_quote_split (acc : list N) (s : list N) (best : option (list N)) : option (list N) :=
  (* text before the LAST double quote of s *)
  match s with
  | [] => best
  | c :: r => if c =? 34 then last_quote_split (acc ++ [c]) r (Some acc)
              else last_quote_split (acc ++ [c]) r best
  end.

Definition str_line : list N := [108; 105; 110; 101].

Definition after_number (n : N) (s : list N) : option (N * list N) :=
  match s with
  | 32 :: 34 :: r => match last_quote_split [] r None with
                     | Some f => Some (n, f)
                     | None => None
                     end
  | _ => None
  end.

Definition parse_line_directive (w : list N) : option (N * list N) :=
  match w with
  | 35 :: r =>
      let '(lastws, r1) := skip_ws 0 r in
      if starts_with str_line r1 then
        (* (line)? taken; then one space, digits *)
        match skipn 4 r1 with
        | 32 :: r2 =>
            let '(n, k, r3) := read_digits 0 0 r2 in
            match k with O => None | _ => after_number n r3 end
        | _ => None
        end
      else if lastws =? 32 then
        let '(n, k, r3) := read_digits 0 0 r1 in
        match k with O => None | _ => after_number n r3 end
      else None
  | _ => None
  end.

Definition str_warning : list N := [35; 119; 97; 114; 110; 105; 110; 103].
Definition str_define : list N := [100; 101; 102; 105; 110; 101].

(* one iteration of the while loop of Lexer.token at a non-empty input *)
Inductive stepres :=
| SPiece (p : piece) (st : lstate) (rest : list N)
| SFail (kind : N) (loc : list N * Z) (at_text : list N).

Definition lex_step (st : lstate) (c : N) (s' : list N) : stepres :=
  let s := c :: s' in
  if in_ranges c (map (fun x => (x, x)) lexignore) then SPiece (PIgn c) st s'
  else
    match first_match rules s with
    | Some (a, rest) =>
        let w := firstn_len s rest in
        match a with
        | ARet ty => SPiece (PTok ty w (lineno st) (loc_of st)) st rest
        | ACountNl ty =>
            let st' := mkL (lineno st + count_nl w) (line_off st) (fname st) in
            SPiece (PTok ty w (lineno st) (loc_of st')) st' rest
        | ALen ty =>
            let st' := mkL (lineno st + N.of_nat (length w)) (line_off st) (fname st) in
            SPiece (PTok ty w (lineno st) (loc_of st')) st' rest
        | AKeyword ty =>
            let ty' := match assoc_str w keywords with Some k => k | None => ty end in
            SPiece (PTok ty' w (lineno st) (loc_of st)) st rest
        | AErr k => SFail k (loc_of st) w
        | APP =>
            match parse_line_directive w with
            | Some (n, f) =>
                SPiece (PDrop w) (mkL (lineno st) (1 + Z.of_N (lineno st) - Z.of_N n)%Z f) rest
            | None =>
                if starts_with str_warning w then SPiece (PDrop w) st rest
                else if contains str_define w then SFail 5 (loc_of st) w
                else SFail 6 (loc_of st) w
            end
        end
    | None =>
        match assoc_chr c literal_chars with
        | Some ty => SPiece (PTok ty [c] (lineno st) (loc_of st)) st s'
        | None => SFail 0 (loc_of st) s
        end
    end.

Fixpoint lex_loop (fuel : nat) (st : lstate) (s : list N) : list piece * outcome :=
  match s with
  | [] => ([], Done)
  | c :: s' =>
      match fuel with
      | O => ([], OutOfFuel)
      | S f =>
          match lex_step st c s' with
          | SPiece p st' rest =>
              let '(ps, o) := lex_loop f st' rest in (p :: ps, o)
          | SFail k loc t => ([], Failed k loc t)
          end
      end
  end.

Definition init_state (file : list N) : lstate := mkL 1 0 file.

Definition lex (file : list N) (s : list N) : list piece * outcome :=
  lex_loop (length s) (init_state file) s.

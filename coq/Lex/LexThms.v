(* Theorems about the lexer loop over the REGENERATED rule set (C08, C10, C06, C07). *)
From Coq Require Import NArith ZArith List Bool Lia.
Import ListNotations.
From CXV Require Import Gen.TokTy Base.Regex Base.RegexThms Gen.LexRules Lex.PlyLoop.
Open Scope N_scope.

(* ------------------------------------------------------------------ *)
(* certified checks, evaluated on the rule set the translator just produced *)

Definition rule_nl_ok (ra : rx * action) : bool :=
  let '(r, a) := ra in
  match a with
  | ACountNl _ | AErr _ => true
  | ALen _ => only_char r 10
  | ARet _ | AKeyword _ | APP => negb (mayc r 10)
  end.

Definition rules_ok : bool :=
  forallb (fun ra => negb (nullable (fst ra))) rules
  && forallb rule_nl_ok rules
  && forallb (fun ra => stars_ok (fst ra)) rules
  && negb (in_ranges 10 (map (fun x => (x, x)) lexignore))
  && forallb (fun kv => negb (fst kv =? 10)) literal_chars.

Lemma rules_ok_true : rules_ok = true.
Proof. vm_compute. reflexivity. Qed.

Lemma first_match_in rs s a rest :
  first_match rs s = Some (a, rest) -> exists r, In (r, a) rs /\ match_prefix r s = Some rest.
Proof.
  induction rs as [|[r a'] rs IH]; cbn [first_match]; [discriminate|].
  destruct (match_prefix r s) eqn:E.
  - intros H; inversion H; subst. exists r. split; [now left|exact E].
  - intros H. destruct (IH H) as [r' [Hin Hm]]. exists r'. split; [now right|exact Hm].
Qed.

Lemma firstn_len_app (w rest : list N) : firstn_len (w ++ rest) rest = w.
Proof.
  unfold firstn_len. rewrite app_length.
  replace (length w + length rest - length rest)%nat with (length w) by lia.
  rewrite firstn_app, Nat.sub_diag, firstn_all. cbn [firstn]. now rewrite app_nil_r.
Qed.

Lemma count_nl_app a b : count_nl (a ++ b) = count_nl a + count_nl b.
Proof. induction a as [|c a IH]; cbn [app count_nl]; [reflexivity|]. rewrite IH. lia. Qed.

Lemma count_nl_none w : Forall (fun c => (c =? 10) = false) w -> count_nl w = 0.
Proof. induction 1 as [|c w Hc _ IH]; cbn [count_nl]; [reflexivity|]. rewrite Hc, IH. reflexivity. Qed.

Lemma count_nl_all w : Forall (fun c => c = 10) w -> count_nl w = N.of_nat (length w).
Proof.
  induction 1 as [|c w Hc _ IH]; cbn [count_nl length]; [reflexivity|].
  subst c. rewrite N.eqb_refl, IH. lia.
Qed.

(* what one iteration of the loop does to text and line counter *)
Definition piece_line_ok (l0 : N) (p : piece) : Prop :=
  match p with PTok _ _ line _ => line = l0 | _ => True end.

Lemma lex_step_piece st c s' p st' rest :
  lex_step st c s' = SPiece p st' rest ->
  c :: s' = piece_text p ++ rest /\ piece_text p <> [] /\
  lineno st' = lineno st + count_nl (piece_text p) /\ piece_line_ok (lineno st) p.
Proof.
  pose proof rules_ok_true as Hok. unfold rules_ok in Hok.
  apply andb_prop in Hok as [Hok Hlit]. apply andb_prop in Hok as [Hok Hign].
  apply andb_prop in Hok as [Hok _]. apply andb_prop in Hok as [Hnn Hnl].
  rewrite forallb_forall in Hnn, Hnl, Hlit.
  unfold lex_step.
  destruct (in_ranges c (map (fun x => (x, x)) lexignore)) eqn:Eign.
  { intros H; inversion H; subst. cbn [piece_text app piece_line_ok]. repeat split; try discriminate.
    cbn [count_nl]. destruct (N.eqb_spec c 10) as [->|_]; [|lia].
    rewrite Eign in Hign. discriminate. }
  destruct (first_match rules (c :: s')) as [[a rest0]|] eqn:Efm.
  - apply first_match_in in Efm as (r & Hin & Hm).
    apply match_prefix_sound in Hm as (w & Hs & Fw & Nw).
    specialize (Hnn _ Hin). specialize (Hnl _ Hin). cbn [fst] in Hnn.
    apply negb_true_iff in Hnn. specialize (Nw Hnn).
    rewrite Hs, firstn_len_app.
    assert (Hnonl : negb (mayc r 10) = true -> count_nl w = 0).
    { intros Hn. apply negb_true_iff in Hn. apply count_nl_none.
      eapply Forall_impl; [|exact Fw]. cbn beta. intros d Hd.
      destruct (N.eqb_spec d 10) as [->|]; [congruence|reflexivity]. }
    cbn [rule_nl_ok] in Hnl.
    destruct a as [ty|ty|ty|ty|k|].
    + intros H; inversion H; subst. cbn [piece_text piece_line_ok]. repeat split; auto.
      rewrite (Hnonl Hnl). lia.
    + intros H; inversion H; subst. cbn [piece_text piece_line_ok lineno]. repeat split; auto.
    + intros H; inversion H; subst. cbn [piece_text piece_line_ok lineno]. repeat split; auto.
      f_equal. symmetry. apply count_nl_all.
      eapply Forall_impl; [|exact Fw]. cbn beta. intros d Hd.
      exact (only_char_mayc r 10 Hnl d Hd).
    + intros H; inversion H; subst. cbn [piece_text piece_line_ok]. repeat split; auto.
      rewrite (Hnonl Hnl). lia.
    + discriminate.
    + destruct (parse_line_directive w) as [[n f]|].
      * intros H; inversion H; subst. cbn [piece_text piece_line_ok lineno]. repeat split; auto.
        rewrite (Hnonl Hnl). lia.
      * destruct (starts_with str_warning w); [|destruct (contains str_define w); discriminate].
        intros H; inversion H; subst. cbn [piece_text piece_line_ok]. repeat split; auto.
        rewrite (Hnonl Hnl). lia.
  - destruct (assoc_chr c literal_chars) as [ty|] eqn:Elit; [|discriminate].
    intros H; inversion H; subst. cbn [piece_text app piece_line_ok]. repeat split; try discriminate.
    cbn [count_nl]. destruct (N.eqb_spec c 10) as [->|_]; [|lia].
    exfalso. clear - Elit Hlit. induction literal_chars as [|[k v] l IH]; cbn [assoc_chr] in Elit; [discriminate|].
    destruct (N.eqb_spec 10 k) as [<-|].
    + specialize (Hlit (10, v) (or_introl eq_refl)). cbn in Hlit. discriminate.
    + apply IH; [|exact Elit]. intros x Hx. apply Hlit. now right.
Qed.

Lemma lex_step_fail st c s' k loc t :
  lex_step st c s' = SFail k loc t -> loc = loc_of st /\ exists rest, c :: s' = t ++ rest.
Proof.
  unfold lex_step.
  destruct (in_ranges c (map (fun x => (x, x)) lexignore)); [discriminate|].
  destruct (first_match rules (c :: s')) as [[a rest0]|] eqn:Efm.
  - apply first_match_in in Efm as (r & Hin & Hm).
    apply match_prefix_sound in Hm as (w & Hs & _ & _).
    rewrite Hs, firstn_len_app.
    destruct a as [ty|ty|ty|ty|kk|]; try discriminate.
    + intros H; inversion H; subst. split; [reflexivity|now exists rest0].
    + destruct (parse_line_directive w) as [[n f]|]; [discriminate|].
      destruct (starts_with str_warning w); [discriminate|].
      destruct (contains str_define w); intros H; inversion H; subst; (split; [reflexivity|now exists rest0]).
  - destruct (assoc_chr c literal_chars); [discriminate|].
    intros H; inversion H; subst. split; [reflexivity|]. exists []. now rewrite app_nil_r.
Qed.

(* ------------------------------------------------------------------ *)
(* C08: partition and line numbers *)

Fixpoint lines_ok (l0 : N) (ps : list piece) : Prop :=
  match ps with
  | [] => True
  | p :: r => piece_line_ok l0 p /\ lines_ok (l0 + count_nl (piece_text p)) r
  end.

Definition all_text (ps : list piece) : list N := concat (map piece_text ps).

Theorem lex_loop_spec : forall fuel st s ps o,
  lex_loop fuel st s = (ps, o) ->
  lines_ok (lineno st) ps /\
  match o with
  | Done => all_text ps = s
  | Failed k loc t => exists rest, s = all_text ps ++ t ++ rest
  | OutOfFuel => (fuel < length s)%nat
  end.
Proof.
  induction fuel as [|f IH]; intros st s ps o H.
  - destruct s as [|c s']; cbn [lex_loop] in H; inversion H; subst; cbn; split; auto. lia.
  - destruct s as [|c s']; cbn [lex_loop] in H; [inversion H; subst; cbn; auto|].
    destruct (lex_step st c s') as [p st' rest|k loc t] eqn:Es.
    + destruct (lex_loop f st' rest) as [ps' o'] eqn:El. inversion H; subst. clear H.
      apply lex_step_piece in Es as (Hs & Hne & Hl & Hp).
      apply IH in El as [L1 L2]. split.
      * cbn [lines_ok]. split; [exact Hp|]. now rewrite <- Hl.
      * unfold all_text in *. cbn [map concat].
        destruct o as [|k loc t|].
        -- now rewrite L2.
        -- destruct L2 as [r2 L2]. exists r2. rewrite Hs, L2. now rewrite <- app_assoc.
        -- rewrite Hs, app_length. destruct (piece_text p); [congruence|]. cbn [length]. lia.
    + inversion H; subst. clear H. apply lex_step_fail in Es as [_ [rest Hr]].
      split; [exact I|]. exists rest. exact Hr.
Qed.

(* no input gets the loop stuck: with fuel = length of the input the result
   is Done or a located error, never OutOfFuel *)
Theorem lex_total file s : snd (lex file s) <> OutOfFuel.
Proof.
  unfold lex. destruct (lex_loop (length s) (init_state file) s) as [ps o] eqn:E.
  apply lex_loop_spec in E as [_ E]. cbn [snd]. destruct o; try discriminate. lia.
Qed.

(* nothing lost: the pieces (tokens, ignored characters, dropped directives)
   in order reproduce the input *)
Theorem lex_partition file s ps :
  lex file s = (ps, Done) -> all_text ps = s.
Proof. unfold lex. intros H. apply lex_loop_spec in H as [_ H]. exact H. Qed.

Theorem lex_partition_err file s ps k loc t :
  lex file s = (ps, Failed k loc t) -> exists rest, s = all_text ps ++ t ++ rest.
Proof. unfold lex. intros H. apply lex_loop_spec in H as [_ H]. exact H. Qed.

(* each token's line number is one plus the number of newlines before it *)
Lemma lines_ok_split : forall pre l0 ty t line loc post,
  lines_ok l0 (pre ++ PTok ty t line loc :: post) -> line = l0 + count_nl (all_text pre).
Proof.
  induction pre as [|p pre IH]; intros l0 ty t line loc post H.
  - cbn in H. destruct H as [H _]. unfold all_text. cbn. lia.
  - cbn [app lines_ok] in H. destruct H as [_ H]. apply IH in H.
    unfold all_text in *. cbn [map concat]. rewrite count_nl_app. lia.
Qed.

Theorem lex_lineno file s ps o pre ty t line loc post :
  lex file s = (ps, o) -> ps = pre ++ PTok ty t line loc :: post ->
  line = 1 + count_nl (all_text pre).
Proof.
  unfold lex. intros H ->. apply lex_loop_spec in H as [H _].
  cbn [init_state lineno] in H. exact (lines_ok_split _ _ _ _ _ _ _ H).
Qed.

(* dropped pieces are directive matches, ignored pieces are lexignore characters:
   by construction of lex_step; stated for the record *)
Lemma dropped_are_directives st c s' t st' rest :
  lex_step st c s' = SPiece (PDrop t) st' rest ->
  exists r, In (r, APP) rules /\ match_prefix r (c :: s') = Some rest.
Proof.
  unfold lex_step.
  destruct (in_ranges c (map (fun x => (x, x)) lexignore)); [discriminate|].
  destruct (first_match rules (c :: s')) as [[a rest0]|] eqn:Efm.
  - destruct a as [ty|ty|ty|ty|kk|]; try discriminate.
    apply first_match_in in Efm as (r & Hin & Hm).
    destruct (parse_line_directive _) as [[n f]|].
    + intros H; inversion H; subst. now exists r.
    + destruct (starts_with str_warning _); [|destruct (contains str_define _); discriminate].
      intros H; inversion H; subst. now exists r.
  - destruct (assoc_chr c literal_chars); discriminate.
Qed.

(* keywords are never plain names: a token of type NAME never carries a keyword's text *)
Definition name_only_from_keyword_rule : bool :=
  forallb (fun ra => match snd ra with
                     | ARet ty | ACountNl ty | ALen ty => negb (ty =? T_NAME)
                     | _ => true end) rules
  && forallb (fun kv => negb (snd kv =? T_NAME)) keywords
  && forallb (fun kv => negb (snd kv =? T_NAME)) literal_chars.

Lemma name_only_true : name_only_from_keyword_rule = true.
Proof. vm_compute. reflexivity. Qed.

Lemma assoc_str_in w l v : assoc_str w l = Some v -> In v (map snd l).
Proof.
  induction l as [|[k x] l IH]; cbn [assoc_str]; [discriminate|].
  destruct (list_eqb w k); intros H; [inversion H; subst; now left|right; auto].
Qed.

Theorem keywords_never_names st c s' t line loc st' rest :
  lex_step st c s' = SPiece (PTok T_NAME t line loc) st' rest ->
  assoc_str t keywords = None.
Proof.
  pose proof name_only_true as Hok. unfold name_only_from_keyword_rule in Hok.
  apply andb_prop in Hok as [Hok Hlit]. apply andb_prop in Hok as [Hrules Hkw].
  rewrite forallb_forall in Hrules, Hkw, Hlit.
  unfold lex_step.
  destruct (in_ranges c (map (fun x => (x, x)) lexignore)); [discriminate|].
  destruct (first_match rules (c :: s')) as [[a rest0]|] eqn:Efm.
  - apply first_match_in in Efm as (r & Hin & Hm). specialize (Hrules _ Hin). cbn [snd] in Hrules.
    destruct a as [ty|ty|ty|ty|kk|].
    + intros H; inversion H; subst. rewrite N.eqb_refl in Hrules. discriminate.
    + intros H; inversion H; subst. rewrite N.eqb_refl in Hrules. discriminate.
    + intros H; inversion H; subst. rewrite N.eqb_refl in Hrules. discriminate.
    + destruct (assoc_str (firstn_len (c :: s') rest0) keywords) as [kty|] eqn:Ek.
      * intros H; inversion H; subst. exfalso.
        apply assoc_str_in in Ek. apply in_map_iff in Ek as [[kk vv] [E1 E2]]. cbn [snd] in E1. subst vv.
        specialize (Hkw _ E2). cbn [snd] in Hkw. rewrite N.eqb_refl in Hkw. discriminate.
      * intros H; inversion H; subst. exact Ek.
    + discriminate.
    + destruct (parse_line_directive _) as [[n f]|]; [discriminate|].
      destruct (starts_with str_warning _); [discriminate|destruct (contains str_define _); discriminate].
  - destruct (assoc_chr c literal_chars) as [ty|] eqn:El; [|discriminate].
    intros H; inversion H; subst. exfalso.
    clear - El Hlit. induction literal_chars as [|[k v] l IH]; cbn [assoc_chr] in El; [discriminate|].
    destruct (c =? k).
    + inversion El; subst. specialize (Hlit (k, T_NAME) (or_introl eq_refl)). cbn in Hlit. discriminate.
    + apply IH; [|exact El]. intros x Hx. apply Hlit. now right.
Qed.

(* ------------------------------------------------------------------ *)
(* C10: stamped locations *)

Definition bump (st : lstate) (t : list N) : lstate :=
  mkL (lineno st + count_nl t) (line_off st) (fname st).

Definition rebase (st : lstate) (t : list N) : lstate :=
  match parse_line_directive t with
  | Some (n, f) => mkL (lineno st) (1 + Z.of_N (lineno st) - Z.of_N n)%Z f
  | None => st
  end.

(* full functional specification of stamping: the location attached to a token
   is (file name in force, line counter after the token - offset in force),
   and only a line directive changes file name and offset *)
Fixpoint locs_ok (st : lstate) (ps : list piece) : Prop :=
  match ps with
  | [] => True
  | PTok _ t _ loc :: r => loc = loc_of (bump st t) /\ locs_ok (bump st t) r
  | PIgn _ :: r => locs_ok st r
  | PDrop t :: r => locs_ok (rebase st t) r
  end.

Definition after_piece (st : lstate) (p : piece) : lstate :=
  match p with PTok _ t _ _ => bump st t | PIgn _ => st | PDrop t => rebase st t end.

Lemma lstate_eta st : mkL (lineno st) (line_off st) (fname st) = st.
Proof. destruct st; reflexivity. Qed.

Lemma lex_step_state st c s' p st' rest :
  lex_step st c s' = SPiece p st' rest ->
  st' = after_piece st p /\ match p with PTok _ t _ loc => loc = loc_of (bump st t) | _ => True end.
Proof.
  intros H. pose proof (lex_step_piece _ _ _ _ _ _ H) as (_ & _ & Hl & _).
  revert H Hl. unfold lex_step.
  destruct (in_ranges c (map (fun x => (x, x)) lexignore)).
  { intros H; inversion H; subst. now split. }
  destruct (first_match rules (c :: s')) as [[a rest0]|].
  - destruct a as [ty|ty|ty|ty|kk|].
    + intros H Hl; inversion H; subst. cbn [after_piece piece_text] in *. unfold bump.
      rewrite <- Hl, lstate_eta. now split.
    + intros H Hl; inversion H; subst. cbn [after_piece]. unfold bump. now split.
    + intros H Hl; inversion H; subst. cbn [after_piece piece_text lineno] in *. unfold bump.
      rewrite <- Hl. now split.
    + intros H Hl; inversion H; subst. cbn [after_piece piece_text] in *. unfold bump.
      rewrite <- Hl, lstate_eta. now split.
    + discriminate.
    + unfold rebase. destruct (parse_line_directive _) as [[n f]|] eqn:Ep.
      * intros H Hl; inversion H; subst. cbn [after_piece]. unfold rebase. rewrite Ep. now split.
      * destruct (starts_with str_warning _); [|destruct (contains str_define _); discriminate].
        intros H Hl; inversion H; subst. cbn [after_piece]. unfold rebase. rewrite Ep. now split.
  - destruct (assoc_chr c literal_chars); [|discriminate].
    intros H Hl; inversion H; subst. cbn [after_piece piece_text] in *. unfold bump.
    rewrite <- Hl, lstate_eta. now split.
Qed.

Theorem lex_locs : forall fuel st s ps o, lex_loop fuel st s = (ps, o) -> locs_ok st ps.
Proof.
  induction fuel as [|f IH]; intros st s ps o H.
  - destruct s; cbn [lex_loop] in H; inversion H; subst; exact I.
  - destruct s as [|c s']; cbn [lex_loop] in H; [inversion H; subst; exact I|].
    destruct (lex_step st c s') as [p st' rest|k loc t] eqn:Es; [|inversion H; subst; exact I].
    destruct (lex_loop f st' rest) as [ps' o'] eqn:El. inversion H; subst. clear H.
    apply lex_step_state in Es as [-> Hp]. apply IH in El.
    destruct p as [ty t line loc|ci|t]; cbn [locs_ok after_piece] in *; auto.
Qed.

(* an error is located at the line counter of the offending match's first
   character, re-based by the directive in force *)
Theorem lex_error_location : forall fuel st s ps k loc t,
  lex_loop fuel st s = (ps, Failed k loc t) ->
  loc = loc_of (fold_left after_piece ps st).
Proof.
  induction fuel as [|f IH]; intros st s ps k loc t H.
  - destruct s; cbn [lex_loop] in H; inversion H.
  - destruct s as [|c s']; cbn [lex_loop] in H; [inversion H|].
    destruct (lex_step st c s') as [p st' rest|k' loc' t'] eqn:Es.
    + destruct (lex_loop f st' rest) as [ps' o'] eqn:El. inversion H; subst. clear H.
      apply lex_step_state in Es as [-> _]. cbn [fold_left]. now apply IH in El.
    + inversion H; subst. apply lex_step_fail in Es as [-> _]. reflexivity.
Qed.

(* the lexer never looks at its line counter, offset or file name: running it
   from a state with the counter advanced by k only shifts what it stamps *)
Definition shift_state (k : N) (st : lstate) : lstate := mkL (lineno st + k) (line_off st) (fname st).
Definition shift_loc (k : N) (l : list N * Z) : list N * Z := (fst l, (snd l + Z.of_N k)%Z).

(* pieces of a run on which no line directive occurs *)
Fixpoint no_rebase (ps : list piece) : Prop :=
  match ps with
  | [] => True
  | PDrop t :: r => parse_line_directive t = None /\ no_rebase r
  | _ :: r => no_rebase r
  end.

Definition shift_piece (k : N) (p : piece) : piece :=
  match p with
  | PTok ty t line loc => PTok ty t (line + k) (shift_loc k loc)
  | _ => p
  end.

Lemma lex_step_shift k st c s' :
  match lex_step st c s' with
  | SPiece p st' rest =>
      match p with
      | PDrop t => match parse_line_directive t with
                   | None => lex_step (shift_state k st) c s' = SPiece p (shift_state k st') rest
                   | Some _ => True
                   end
      | _ => lex_step (shift_state k st) c s' = SPiece (shift_piece k p) (shift_state k st') rest
      end
  | SFail kind loc t => lex_step (shift_state k st) c s' = SFail kind (shift_loc k loc) t
  end.
Proof.
  unfold lex_step.
  destruct (in_ranges c (map (fun x => (x, x)) lexignore)); [reflexivity|].
  assert (Hloc : forall n, loc_of (mkL (lineno st + k + n) (line_off st) (fname st))
                           = shift_loc k (loc_of (mkL (lineno st + n) (line_off st) (fname st)))).
  { intros n. unfold loc_of, shift_loc. cbn [fname lineno line_off fst snd]. f_equal. lia. }
  assert (Hloc0 : loc_of (shift_state k st) = shift_loc k (loc_of st)).
  { unfold loc_of, shift_loc, shift_state. cbn [fname lineno line_off fst snd]. f_equal. lia. }
  assert (Hsw : forall a b c0 : N, a + b + c0 = a + c0 + b) by (intros; lia).
  destruct (first_match rules (c :: s')) as [[a rest0]|].
  - destruct a as [ty|ty|ty|ty|kk|]; cbn [shift_piece].
    + now rewrite Hloc0.
    + unfold shift_state at 1 2 3 4. cbn [lineno line_off fname]. rewrite Hloc. unfold shift_state. cbn [lineno line_off fname].
      rewrite (Hsw (lineno st) k). reflexivity.
    + unfold shift_state at 1 2 3 4. cbn [lineno line_off fname]. rewrite Hloc. unfold shift_state. cbn [lineno line_off fname].
      rewrite (Hsw (lineno st) k). reflexivity.
    + now rewrite Hloc0.
    + now rewrite Hloc0.
    + destruct (parse_line_directive _) as [[n f]|] eqn:Ep.
      * rewrite Ep. exact I.
      * destruct (starts_with str_warning _).
        -- rewrite Ep. reflexivity.
        -- destruct (contains str_define _); now rewrite Hloc0.
  - destruct (assoc_chr c literal_chars); now rewrite Hloc0.
Qed.

Theorem lex_shift k : forall fuel st s ps o,
  lex_loop fuel st s = (ps, o) -> no_rebase ps ->
  lex_loop fuel (shift_state k st) s =
    (map (shift_piece k) ps,
     match o with Failed kind loc t => Failed kind (shift_loc k loc) t | _ => o end).
Proof.
  induction fuel as [|f IH]; intros st s ps o H Hn.
  - destruct s; cbn [lex_loop] in *; inversion H; subst; reflexivity.
  - destruct s as [|c s']; cbn [lex_loop] in *; [inversion H; subst; reflexivity|].
    pose proof (lex_step_shift k st c s') as Hs.
    destruct (lex_step st c s') as [p st' rest|kind loc t].
    + destruct (lex_loop f st' rest) as [ps' o'] eqn:El. inversion H; subst. clear H.
      destruct p as [ty t line loc|ci|t]; cbn [no_rebase] in Hn.
      * rewrite Hs. rewrite (IH _ _ _ _ El Hn). reflexivity.
      * rewrite Hs. rewrite (IH _ _ _ _ El Hn). reflexivity.
      * destruct Hn as [Hp Hn]. rewrite Hp in Hs. rewrite Hs. rewrite (IH _ _ _ _ El Hn). reflexivity.
    + inversion H; subst. rewrite Hs. reflexivity.
Qed.

(* resuming: once the pieces [pre] have been produced, the rest of the run is
   the run on the remaining text from the state after [pre] *)
Lemma lex_resume : forall pre fuel st s ps o,
  lex_loop fuel st s = (pre ++ ps, o) -> (ps <> [] \/ o = Done) ->
  exists fuel' s', s = all_text pre ++ s' /\
    lex_loop fuel' (fold_left after_piece pre st) s' = (ps, o).
Proof.
  induction pre as [|p pre IH]; intros fuel st s ps o H Hne.
  - exists fuel, s. split; [reflexivity|exact H].
  - destruct fuel as [|f]; destruct s as [|c s']; cbn [lex_loop app] in H; try (inversion H; fail).
    destruct (lex_step st c s') as [p' st' rest|kind loc t] eqn:Es; [|inversion H].
    destruct (lex_loop f st' rest) as [ps' o'] eqn:El. inversion H; subst. clear H.
    pose proof (lex_step_piece _ _ _ _ _ _ Es) as (Hs & _).
    apply lex_step_state in Es as [-> _].
    destruct (IH _ _ _ _ _ El Hne) as (fuel' & s2 & Hs2 & Hrun).
    exists fuel', s2. split; [|exact Hrun].
    unfold all_text in *. cbn [map concat]. rewrite Hs, Hs2. now rewrite <- app_assoc.
Qed.

(* ------------------------------------------------------------------ *)
(* C06: rejection facts *)

(* rules that cannot start with c never match an input starting with c *)
Lemma first_match_filter c s : forall rs,
  forallb (fun ra => negb (nullable (fst ra))) rs = true ->
  first_match rs (c :: s) = first_match (filter (fun ra => firstc (fst ra) c) rs) (c :: s).
Proof.
  induction rs as [|[r a] rs IH]; intros Hn; [reflexivity|].
  cbn [forallb fst] in Hn. apply andb_prop in Hn as [Hr Hn]. apply negb_true_iff in Hr.
  cbn [first_match filter fst]. destruct (firstc r c) eqn:Ef.
  - cbn [first_match]. destruct (match_prefix r (c :: s)); [reflexivity|now apply IH].
  - rewrite (no_first_no_match r c s Hr Ef). now apply IH.
Qed.

Lemma rules_nonnull : forallb (fun ra => negb (nullable (fst ra))) rules = true.
Proof.
  pose proof rules_ok_true as H. unfold rules_ok in H.
  repeat (apply andb_prop in H as [H _]). exact H.
Qed.

(* a character that can start no rule, is no literal and is not ignored is
   rejected as "Illegal character" at the current location, whatever follows *)
Theorem illegal_char_rejected st c s' :
  forallb (fun ra => negb (firstc (fst ra) c)) rules = true ->
  assoc_chr c literal_chars = None ->
  in_ranges c (map (fun x => (x, x)) lexignore) = false ->
  lex_step st c s' = SFail 0 (loc_of st) (c :: s').
Proof.
  intros Hf Hl Hi. unfold lex_step. rewrite Hi, (first_match_filter c s' rules rules_nonnull).
  assert (E : filter (fun ra => firstc (fst ra) c) rules = []).
  { clear - Hf. induction rules as [|ra rs IH]; [reflexivity|].
    cbn [forallb] in Hf. apply andb_prop in Hf as [H1 H2]. apply negb_true_iff in H1.
    cbn [filter]. rewrite H1. now apply IH. }
  rewrite E. cbn [first_match]. now rewrite Hl.
Qed.

(* '#': only the pragma, include and generic directive rules can match, so a
   '#' is a pragma/include token, a dropped #line/#warning, or an error *)
Definition hash_rules : list (rx * action) := filter (fun ra => firstc (fst ra) 35) rules.

Definition hash_rules_ok : bool :=
  forallb (fun ra => match snd ra with
                     | ARet ty => (ty =? T_PRAGMA_DIRECTIVE) || (ty =? T_INCLUDE_DIRECTIVE)
                     | APP => true
                     | _ => false end) hash_rules
  && match assoc_chr 35 literal_chars with None => true | Some _ => false end
  && negb (in_ranges 35 (map (fun x => (x, x)) lexignore)).

Lemma hash_rules_ok_true : hash_rules_ok = true.
Proof. vm_compute. reflexivity. Qed.

Theorem hash_is_directive_or_error st s' :
  match lex_step st 35 s' with
  | SPiece (PTok ty _ _ _) _ _ => ty = T_PRAGMA_DIRECTIVE \/ ty = T_INCLUDE_DIRECTIVE
  | SPiece (PDrop t) _ _ => parse_line_directive t <> None \/ starts_with str_warning t = true
  | SPiece (PIgn _) _ _ => False
  | SFail k _ _ => True
  end.
Proof.
  pose proof hash_rules_ok_true as Hok. unfold hash_rules_ok in Hok.
  apply andb_prop in Hok as [Hok Hi]. apply andb_prop in Hok as [Hr Hl].
  apply negb_true_iff in Hi. rewrite forallb_forall in Hr.
  unfold lex_step. rewrite Hi, (first_match_filter 35 s' rules rules_nonnull). fold hash_rules.
  destruct (first_match hash_rules (35 :: s')) as [[a rest]|] eqn:Efm.
  - apply first_match_in in Efm as (r & Hin & _). specialize (Hr _ Hin). cbn [snd] in Hr.
    destruct a as [ty|ty|ty|ty|kk|]; try discriminate.
    + apply orb_prop in Hr as [Hr|Hr]; apply N.eqb_eq in Hr; auto.
    + destruct (parse_line_directive _) as [[n f]|] eqn:Ep.
      * left. rewrite Ep. discriminate.
      * destruct (starts_with str_warning _) eqn:Ew; [right; exact Ew|].
        destruct (contains str_define _); exact I.
  - destruct (assoc_chr 35 literal_chars); [discriminate|exact I].
Qed.

(* the line counter after a run: start + newlines of all text consumed *)
Lemma lex_loop_lineno : forall fuel st s ps o,
  lex_loop fuel st s = (ps, o) ->
  lineno (fold_left after_piece ps st) = lineno st + count_nl (all_text ps).
Proof.
  induction fuel as [|f IH]; intros st s ps o H.
  - destruct s; cbn [lex_loop] in H; inversion H; subst; cbn; lia.
  - destruct s as [|c s']; cbn [lex_loop] in H; [inversion H; subst; cbn; lia|].
    destruct (lex_step st c s') as [p st' rest|k loc t] eqn:Es; [|inversion H; subst; cbn; lia].
    destruct (lex_loop f st' rest) as [ps' o'] eqn:El. inversion H; subst. clear H.
    pose proof (lex_step_piece _ _ _ _ _ _ Es) as (_ & _ & Hl & _).
    apply lex_step_state in Es as [-> _]. apply IH in El.
    cbn [fold_left]. rewrite El. unfold all_text. cbn [map concat]. rewrite count_nl_app, Hl. lia.
Qed.

(* without a line directive, a lexical error names a line that exists in the input *)
Theorem lex_error_line_exists file s ps k loc t :
  lex file s = (ps, Failed k loc t) -> no_rebase ps ->
  fst loc = file /\ exists rest, s = (all_text ps ++ rest)%list /\
    snd loc = Z.of_N (1 + count_nl (all_text ps)).
Proof.
  unfold lex. intros H Hn.
  pose proof (lex_error_location _ _ _ _ _ _ _ H) as Hloc.
  pose proof (lex_loop_lineno _ _ _ _ _ H) as Hl.
  apply lex_loop_spec in H as [_ [rest Hs]].
  assert (Hst : forall ps0 st0, no_rebase ps0 ->
            line_off (fold_left after_piece ps0 st0) = line_off st0 /\ fname (fold_left after_piece ps0 st0) = fname st0).
  { clear. induction ps0 as [|p r IH]; intros st0 Hn; [split; reflexivity|].
    cbn [fold_left]. destruct p as [ty t line loc|c|t]; cbn [no_rebase after_piece] in *.
    - destruct (IH (bump st0 t) Hn) as [A B]. rewrite A, B. split; reflexivity.
    - exact (IH st0 Hn).
    - destruct Hn as [Hp Hn]. unfold rebase. rewrite Hp. exact (IH st0 Hn). }
  destruct (Hst ps (init_state file) Hn) as [Ho Hf].
  subst loc. unfold loc_of. cbn [fst snd]. rewrite Hf, Ho, Hl. cbn [init_state fname line_off lineno].
  split; [reflexivity|]. exists (t ++ rest)%list. split; [exact Hs|]. lia.
Qed.

(* ------------------------------------------------------------------ *)
(* C07: the token loop makes at most one iteration per input character *)
Theorem lex_pieces_linear : forall fuel st s ps o,
  lex_loop fuel st s = (ps, o) -> (length ps <= length s)%nat.
Proof.
  induction fuel as [|f IH]; intros st s ps o H.
  - destruct s; cbn [lex_loop] in H; inversion H; subst; cbn; lia.
  - destruct s as [|c s']; cbn [lex_loop] in H; [inversion H; subst; cbn; lia|].
    destruct (lex_step st c s') as [p st' rest|k loc t] eqn:Es; [|inversion H; subst; cbn; lia].
    destruct (lex_loop f st' rest) as [ps' o'] eqn:El. inversion H; subst. clear H.
    apply lex_step_piece in Es as (Hs & Hne & _ & _). apply IH in El.
    apply (f_equal (@length N)) in Hs. rewrite app_length in Hs. cbn [length] in *.
    destruct (piece_text p); [congruence|]. cbn [length] in Hs. lia.
Qed.

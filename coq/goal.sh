#!/bin/bash
# usage: goal.sh File.v LINE  -- show the proof state just before LINE
f=$1; n=$2
d=$(mktemp -d /tmp/goalXXXX)
head -n $((n-1)) "$f" > $d/G.v
echo "Show." >> $d/G.v
cd ${COQROOT:-/verif/coq} && timeout 120 coqc -Q . CXV -w none $d/G.v 2>&1 | grep -v "^Error: There are pending proofs" | tail -${3:-40}
rm -rf $d

(* Hand-written mirror of cxxheaderparser/preprocessor.py: _gcc_filter,
   _msvc_filter, _pcpp_filter (bodies pinned by text in translate/gen_filters.py).
   A text is a list of lines, each line a list of code points INCLUDING its
   trailing newline (what iterating a text file yields). *)
From Coq Require Import NArith List Bool.
Import ListNotations.
From CXV Require Import Lex.PlyLoop.
Open Scope N_scope.

Definition Q : N := 34.   (* double quote *)

Fixpoint find_q (l : list N) : option nat :=
  match l with
  | [] => None
  | c :: r => if c =? Q then Some O else option_map S (find_q r)
  end.

Fixpoint rfind_q (l : list N) : option nat :=
  match l with
  | [] => None
  | c :: r => match rfind_q r with
              | Some i => Some (S i)
              | None => if c =? Q then Some O else None
              end
  end.

Definition slice (a b : nat) (l : list N) : list N := firstn (b - a) (skipn a l).

(* fname.replace: every backslash is doubled *)
Fixpoint esc (l : list N) : list N :=
  match l with [] => [] | c :: r => if c =? 92 then 92 :: 92 :: esc r else c :: esc r end.

Definition ends_with (suffix l : list N) : bool := starts_with (rev suffix) (rev l).

(* one line of _gcc_filter: new value of `keep` *)
Definition gcc_keep (fname : list N) (keep : bool) (line : list N) : bool :=
  if starts_with [35; 32] line then
    match rfind_q line with
    | Some lq => match find_q line with
                 | Some fq => list_eqb (slice (S fq) lq line) fname
                 | None => keep
                 end
    | None => keep
    end
  else keep.

Fixpoint filter_lines (step : bool -> list N -> bool) (keep : bool) (lines : list (list N)) : list (list N) :=
  match lines with
  | [] => []
  | l :: r => let k := step keep l in (if k then [l] else []) ++ filter_lines step k r
  end.

Definition gcc_filter (fname : list N) (lines : list (list N)) : list (list N) :=
  filter_lines (gcc_keep (esc fname)) true lines.

Definition str_hline : list N := [35; 108; 105; 110; 101].   (* #line *)

(* _pcpp_filter: line_ending = quote + fname + quote + newline *)
Definition pcpp_keep (fname : list N) (keep : bool) (line : list N) : bool :=
  if starts_with str_hline line then ends_with (Q :: fname ++ [Q; 10]) line else keep.

Definition pcpp_filter (fname : list N) (lines : list (list N)) : list (list N) :=
  filter_lines (pcpp_keep fname) true lines.

(* dependencies recorded by _pcpp_filter: line[find(quote)+1 : -2] of every #line line *)
Definition pcpp_dep (line : list N) : option (list N) :=
  if starts_with str_hline line then
    match find_q line with
    | Some fq => Some (slice (S fq) (length line - 2) line)
    | None => Some (slice 0 (length line - 2) line)     (* find = -1: start+1 = 0 *)
    end
  else None.

(* _msvc_filter: the first line names the main file; fname = first[first.find(quote):] *)
Definition msvc_keep (suffix : list N) (keep : bool) (line : list N) : bool :=
  if starts_with str_hline line then ends_with suffix line else keep.

Definition msvc_filter (lines : list (list N)) : list (list N) :=
  match lines with
  | [] => []
  | first :: rest =>
      let suffix := match find_q first with
                    | Some i => skipn i first
                    | None => match first with [] => [] | _ => [last first 0] end   (* first[-1:] *)
                    end in
      filter_lines (msvc_keep suffix) true rest
  end.

(* Specification of line-marker streams and the filter theorems (C19). *)
From Coq Require Import NArith List Bool Lia PeanoNat.
Import ListNotations.
From CXV Require Import Lex.PlyLoop PP.Filters.
Open Scope N_scope.

(* what a preprocessor emits: markers naming the file the following lines
   come from, and content lines *)
Inductive item :=
| Marker (pre : list N) (file : list N) (post : list N)   (* pre, quoted file, post *)
| Content (line : list N).

Definition noq (l : list N) : Prop := Forall (fun c => c <> Q) l.

Definition render (it : item) : list N :=
  match it with
  | Marker pre f post => pre ++ Q :: f ++ Q :: post
  | Content l => l
  end.

(* the lines that belong to [main]: content while the current file is main,
   and the markers that switch to main (they re-base the lexer's line count) *)
Fixpoint select (is_main : list N -> bool) (cur : bool) (s : list item) : list item :=
  match s with
  | [] => []
  | Marker pre f post :: r =>
      let k := is_main f in (if k then [Marker pre f post] else []) ++ select is_main k r
  | Content l :: r => (if cur then [Content l] else []) ++ select is_main cur r
  end.

(* ---- string lemmas ---- *)
Lemma find_q_noq pre r : noq pre -> find_q (pre ++ Q :: r) = Some (length pre).
Proof.
  induction 1 as [|c l Hc _ IH]; cbn [app find_q length].
  - now rewrite N.eqb_refl.
  - destruct (N.eqb_spec c Q); [contradiction|]. now rewrite IH.
Qed.

Lemma rfind_q_noq_none l : noq l -> rfind_q l = None.
Proof.
  induction 1 as [|c l Hc _ IH]; cbn [rfind_q]; [reflexivity|].
  rewrite IH. destruct (N.eqb_spec c Q); [contradiction|reflexivity].
Qed.

Lemma rfind_q_last : forall pre post, noq post -> rfind_q (pre ++ Q :: post) = Some (length pre).
Proof.
  induction pre as [|c l IH]; intros post Hp; cbn [app rfind_q length].
  - rewrite (rfind_q_noq_none post Hp). now rewrite N.eqb_refl.
  - now rewrite (IH post Hp).
Qed.

Lemma slice_mid (a m b : list N) : slice (length a) (length a + length m) (a ++ m ++ b) = m.
Proof.
  unfold slice. rewrite skipn_app, skipn_all, Nat.sub_diag. cbn [app skipn].
  replace (length a + length m - length a)%nat with (length m) by lia.
  rewrite firstn_app, firstn_all, Nat.sub_diag. cbn [firstn]. now rewrite app_nil_r.
Qed.

Lemma list_eqb_refl l : list_eqb l l = true.
Proof. induction l as [|c l IH]; cbn; [reflexivity|]. now rewrite N.eqb_refl, IH. Qed.

Lemma list_eqb_true : forall a b, list_eqb a b = true -> a = b.
Proof.
  induction a as [|x a IH]; destruct b as [|y b]; cbn [list_eqb]; intros H; try discriminate; [reflexivity|].
  apply andb_prop in H as [H1 H2]. apply N.eqb_eq in H1. subst. f_equal. now apply IH.
Qed.

Lemma esc_inj : forall a b, esc a = esc b -> a = b.
Proof.
  induction a as [|x a IH]; destruct b as [|y b]; cbn [esc]; intros H.
  - reflexivity.
  - destruct (y =? 92); discriminate.
  - destruct (x =? 92); discriminate.
  - destruct (N.eqb_spec x 92) as [->|Hx]; destruct (N.eqb_spec y 92) as [->|Hy].
    + inversion H. f_equal. now apply IH.
    + inversion H; subst. contradiction.
    + inversion H; subst. contradiction.
    + inversion H; subst. f_equal. now apply IH.
Qed.

(* the name between the first and the last quote of a rendered marker *)
Lemma marker_name pre f post :
  noq pre -> noq f -> noq post ->
  rfind_q (render (Marker pre f post)) = Some (length pre + 1 + length f)%nat /\
  find_q (render (Marker pre f post)) = Some (length pre) /\
  slice (S (length pre)) (length pre + 1 + length f) (render (Marker pre f post)) = f.
Proof.
  intros Hp Hf Ho. cbn [render]. split; [|split].
  - replace (pre ++ Q :: f ++ Q :: post) with ((pre ++ Q :: f) ++ Q :: post) by (rewrite <- app_assoc; reflexivity).
    rewrite (rfind_q_last _ _ Ho), app_length. cbn [length]. f_equal. lia.
  - apply find_q_noq. exact Hp.
  - replace (pre ++ Q :: f ++ Q :: post) with ((pre ++ [Q]) ++ f ++ (Q :: post)) by (rewrite <- app_assoc; reflexivity).
    replace (S (length pre)) with (length (pre ++ [Q])) by (rewrite app_length; cbn; lia).
    replace (length pre + 1 + length f)%nat with (length (pre ++ [Q]) + length f)%nat by (rewrite app_length; cbn; lia).
    apply slice_mid.
Qed.

(* ---- gcc ---- *)
(* well-formed gcc output: markers start with hash-blank, their parts contain
   no quote; content lines do not start with hash-blank *)
Definition gcc_wf (it : item) : Prop :=
  match it with
  | Marker pre f post => starts_with [35; 32] pre = true /\ noq pre /\ noq f /\ noq post
  | Content l => starts_with [35; 32] l = false
  end.

Lemma starts_with_app p a b : starts_with p a = true -> starts_with p (a ++ b) = true.
Proof.
  revert a. induction p as [|x p IH]; intros a H; [reflexivity|].
  destruct a as [|y a]; cbn in *; [discriminate|].
  apply andb_prop in H as [H1 H2]. rewrite H1. cbn. now apply IH.
Qed.

Lemma gcc_keep_marker main keep pre f post :
  gcc_wf (Marker pre f post) ->
  gcc_keep main keep (render (Marker pre f post)) = list_eqb f main.
Proof.
  intros (Hs & Hp & Hf & Ho). unfold gcc_keep.
  assert (Hsw : starts_with [35; 32] (render (Marker pre f post)) = true).
  { cbn [render]. now apply starts_with_app. }
  rewrite Hsw. destruct (marker_name pre f post Hp Hf Ho) as (R & F & S). now rewrite R, F, S.
Qed.

Lemma gcc_keep_content main keep l : gcc_wf (Content l) -> gcc_keep main keep l = keep.
Proof. intros H. cbn [gcc_wf] in H. unfold gcc_keep. now rewrite H. Qed.

Theorem gcc_filter_keeps_main_lemma main : forall (s : list item) keep,
  Forall gcc_wf s ->
  filter_lines (gcc_keep main) keep (map render s)
  = map render (select (fun f => list_eqb f main) keep s).
Proof.
  induction s as [|it r IH]; intros keep Hwf; [reflexivity|].
  inversion Hwf as [|x l Hit Hr]; subst. cbn [map filter_lines].
  destruct it as [pre f post|l].
  - rewrite (gcc_keep_marker main keep pre f post Hit). cbn [select].
    destruct (list_eqb f main); cbn [app map]; rewrite IH by assumption; reflexivity.
  - cbn [render]. rewrite (gcc_keep_content main keep l Hit). cbn [select render].
    destruct keep; cbn [app map]; rewrite IH by assumption; reflexivity.
Qed.

(* names: gcc writes the escaped name in its markers, the filter compares
   with the escaped main name; escaping is injective *)
Lemma esc_eqb a b : list_eqb (esc a) (esc b) = list_eqb a b.
Proof.
  destruct (list_eqb a b) eqn:E.
  - apply list_eqb_true in E. subst. apply list_eqb_refl.
  - destruct (list_eqb (esc a) (esc b)) eqn:E2; [|reflexivity].
    apply list_eqb_true in E2. apply esc_inj in E2. subst. rewrite list_eqb_refl in E. discriminate.
Qed.

(* ---- pcpp / msvc: #line markers and an ends-with test ---- *)
Lemma starts_with_rev_noq : forall a b c, noq a -> noq b ->
  starts_with (a ++ [Q]) (b ++ Q :: c) = list_eqb a b.
Proof.
  induction a as [|x a IH]; intros b c Ha Hb.
  - destruct b as [|y b]; cbn [app starts_with list_eqb].
    + now rewrite N.eqb_refl.
    + inversion Hb as [|? ? Hy _]; subst. destruct (N.eqb_spec Q y); [congruence|reflexivity].
  - inversion Ha as [|? ? Hx Ha']; subst.
    destruct b as [|y b]; cbn [app starts_with list_eqb].
    + destruct (N.eqb_spec x Q); [contradiction|reflexivity].
    + inversion Hb as [|? ? Hy Hb']; subst. rewrite (IH b c Ha' Hb'). reflexivity.
Qed.

Lemma noq_rev l : noq l -> noq (rev l).
Proof. unfold noq. intros H. apply Forall_forall. intros x Hx. apply in_rev in Hx. rewrite Forall_forall in H. auto. Qed.

Lemma list_eqb_rev a b : list_eqb (rev a) (rev b) = list_eqb a b.
Proof.
  destruct (list_eqb a b) eqn:E.
  - apply list_eqb_true in E. subst. apply list_eqb_refl.
  - destruct (list_eqb (rev a) (rev b)) eqn:E2; [|reflexivity].
    apply list_eqb_true in E2. apply (f_equal (@rev N)) in E2. rewrite !rev_involutive in E2. subst.
    rewrite list_eqb_refl in E. discriminate.
Qed.

(* a #line marker for f ends with quote main quote newline exactly when f = main *)
Lemma ends_with_marker main pre f :
  noq main -> noq f ->
  ends_with (Q :: main ++ [Q; 10]) (render (Marker pre f [10])) = list_eqb f main.
Proof.
  intros Hm Hf. unfold ends_with. cbn [render].
  replace (rev (Q :: main ++ [Q; 10])) with (10 :: Q :: rev main ++ [Q]).
  2:{ cbn [rev]. rewrite rev_app_distr. cbn [rev app]. rewrite <- ?app_assoc. reflexivity. }
  replace (rev (pre ++ Q :: f ++ [Q; 10])) with (10 :: Q :: rev f ++ Q :: rev pre).
  2:{ rewrite rev_app_distr. cbn [rev]. rewrite rev_app_distr. cbn [rev app]. rewrite <- ?app_assoc. cbn [app]. reflexivity. }
  cbn [starts_with]. rewrite !N.eqb_refl. cbn [andb].
  rewrite (starts_with_rev_noq (rev main) (rev f) (rev pre) (noq_rev _ Hm) (noq_rev _ Hf)).
  rewrite list_eqb_rev. destruct (list_eqb main f) eqn:E.
  - apply list_eqb_true in E. subst. now rewrite list_eqb_refl.
  - destruct (list_eqb f main) eqn:E2; [|reflexivity]. apply list_eqb_true in E2. subst. rewrite list_eqb_refl in E. discriminate.
Qed.

Definition hline_wf (it : item) : Prop :=
  match it with
  | Marker pre f post => starts_with str_hline pre = true /\ noq f /\ post = [10]
  | Content l => starts_with str_hline l = false
  end.

Theorem pcpp_filter_keeps_main_lemma main : noq main -> forall (s : list item) keep,
  Forall hline_wf s ->
  filter_lines (pcpp_keep main) keep (map render s)
  = map render (select (fun f => list_eqb f main) keep s).
Proof.
  intros Hm. induction s as [|it r IH]; intros keep Hwf; [reflexivity|].
  inversion Hwf as [|x l Hit Hr]; subst. cbn [map filter_lines].
  destruct it as [pre f post|l].
  - destruct Hit as (Hs & Hf & ->).
    assert (Hk : pcpp_keep main keep (render (Marker pre f [10])) = list_eqb f main).
    { unfold pcpp_keep.
      assert (Hsw : starts_with str_hline (render (Marker pre f [10])) = true) by (cbn [render]; now apply starts_with_app).
      rewrite Hsw. now apply ends_with_marker. }
    rewrite Hk. cbn [select]. destruct (list_eqb f main); cbn [app map]; rewrite IH by assumption; reflexivity.
  - cbn [hline_wf] in Hit. assert (Hk : pcpp_keep main keep l = keep) by (unfold pcpp_keep; now rewrite Hit).
    cbn [render]. rewrite Hk. cbn [select render].
    destruct keep; cbn [app map]; rewrite IH by assumption; reflexivity.
Qed.

(* msvc: the suffix is taken from the first line, the #line marker of main *)
Theorem msvc_filter_keeps_main_lemma pre0 main : noq pre0 -> noq main -> forall (s : list item),
  Forall hline_wf s ->
  msvc_filter (render (Marker pre0 main [10]) :: map render s)
  = map render (select (fun f => list_eqb f main) true s).
Proof.
  intros Hp Hm s Hwf. unfold msvc_filter. cbn [render].
  rewrite (find_q_noq pre0 (main ++ [Q; 10]) Hp).
  rewrite skipn_app, skipn_all, Nat.sub_diag. cbn [app skipn].
  change (Q :: main ++ [Q; 10]) with (Q :: main ++ [Q; 10]).
  generalize true. induction s as [|it r IH]; intros keep; [reflexivity|].
  inversion Hwf as [|x l Hit Hr]; subst. cbn [map filter_lines].
  destruct it as [pre f post|l].
  - destruct Hit as (Hs & Hf & ->).
    assert (Hk : msvc_keep (Q :: main ++ [Q; 10]) keep (render (Marker pre f [10])) = list_eqb f main).
    { unfold msvc_keep.
      assert (Hsw : starts_with str_hline (render (Marker pre f [10])) = true) by (cbn [render]; now apply starts_with_app).
      rewrite Hsw. now apply ends_with_marker. }
    rewrite Hk. cbn [select]. destruct (list_eqb f main); cbn [app map]; rewrite IH by assumption; reflexivity.
  - cbn [hline_wf] in Hit. assert (Hk : msvc_keep (Q :: main ++ [Q; 10]) keep l = keep) by (unfold msvc_keep; now rewrite Hit).
    cbn [render]. rewrite Hk. cbn [select render].
    destruct keep; cbn [app map]; rewrite IH by assumption; reflexivity.
Qed.

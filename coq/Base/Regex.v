(* Regular expressions over code points (N) with CPython-re semantics on the
   opcode subset the lexer uses: ordered alternation, greedy repetition with
   backtracking, negative look-ahead, '$'.  [rmatch] is a continuation-passing
   backtracking matcher, structurally recursive on the regex. *)
From Coq Require Import NArith List Bool.
Import ListNotations.
Open Scope N_scope.

Inductive rx :=
| Eps
| Chr (neg : bool) (ranges : list (N * N))
| Cat (a b : rx)
| Alt (a b : rx)
| Star (r : rx)
| NotAhead (r : rx)
| AtEnd.

Fixpoint in_ranges (c : N) (l : list (N * N)) : bool :=
  match l with
  | [] => false
  | (lo, hi) :: r => if (lo <=? c) && (c <=? hi) then true else in_ranges c r
  end.

Definition chr_ok (neg : bool) (l : list (N * N)) (c : N) : bool :=
  if neg then negb (in_ranges c l) else in_ranges c l.

(* '$' : at the end, or just before a final newline *)
Definition at_end (s : list N) : bool :=
  match s with [] => true | [10] => true | _ => false end.

(* greedy star: at most [n] iterations (n = length of the input when the star
   is entered; every iteration of a non-nullable body consumes >= 1 char) *)
Fixpoint rmatch (A : Type) (r : rx) (s : list N) (k : list N -> option A) {struct r} : option A :=
  match r with
  | Eps => k s
  | Chr neg l => match s with c :: s' => if chr_ok neg l c then k s' else None | [] => None end
  | Cat a b => rmatch A a s (fun s' => rmatch A b s' k)
  | Alt a b => match rmatch A a s k with Some x => Some x | None => rmatch A b s k end
  | Star body =>
      (fix star (n : nat) (s : list N) {struct n} : option A :=
         match n with
         | O => k s
         | S n' =>
             match rmatch A body s (fun s' => star n' s') with
             | Some x => Some x
             | None => k s
             end
         end) (length s) s
  | NotAhead a =>
      match rmatch unit a s (fun _ => Some tt) with
      | Some _ => None
      | None => k s
      end
  | AtEnd => if at_end s then k s else None
  end.
Arguments rmatch {A} r s k.

(* the text a rule matches at the head of [s]: Some rest *)
Definition match_prefix (r : rx) (s : list N) : option (list N) := rmatch r s (fun s' => Some s').

(* computable approximations used by the certified checks *)
Fixpoint nullable (r : rx) : bool :=
  match r with
  | Eps | Star _ | NotAhead _ | AtEnd => true
  | Chr _ _ => false
  | Cat a b => nullable a && nullable b
  | Alt a b => nullable a || nullable b
  end.

(* may the matched text contain character c? *)
Fixpoint mayc (r : rx) (c : N) : bool :=
  match r with
  | Eps | NotAhead _ | AtEnd => false
  | Chr neg l => chr_ok neg l c
  | Cat a b | Alt a b => mayc a c || mayc b c
  | Star a => mayc a c
  end.

(* is every character the matched text can contain equal to c? *)
Fixpoint only_char (r : rx) (c : N) : bool :=
  match r with
  | Eps | NotAhead _ | AtEnd => true
  | Chr neg l => negb neg && forallb (fun p => (fst p =? c) && (snd p =? c)) l
  | Cat a b | Alt a b => only_char a c && only_char b c
  | Star a => only_char a c
  end.

(* every starred body is non-nullable (PLY/our side condition) *)
Fixpoint stars_ok (r : rx) : bool :=
  match r with
  | Eps | Chr _ _ | AtEnd => true
  | Cat a b | Alt a b => stars_ok a && stars_ok b
  | Star a => negb (nullable a) && stars_ok a
  | NotAhead a => stars_ok a
  end.

(* Meta-theory of Base/Regex.v used by the lexer theorems. *)
From Coq Require Import NArith List Bool Lia.
Import ListNotations.
From CXV Require Import Base.Regex.
Open Scope N_scope.

Definition msplit {A} (r : rx) (s : list N) (k : list N -> option A) (x : A) : Prop :=
  exists w s', s = w ++ s' /\ k s' = Some x /\
    Forall (fun c => mayc r c = true) w /\ (nullable r = false -> w <> []).

Lemma Forall_mayc_weaken (P Q : N -> bool) w :
  (forall c, P c = true -> Q c = true) ->
  Forall (fun c => P c = true) w -> Forall (fun c => Q c = true) w.
Proof. intros H F. induction F; constructor; auto. Qed.

(* a successful match consumed a prefix [w] made of characters the regex may
   contain, non-empty when the regex is not nullable, and the continuation
   succeeded on the rest *)
Theorem rmatch_sound : forall r A s (k : list N -> option A) x,
  rmatch r s k = Some x -> msplit r s k x.
Proof.
  induction r as [|neg l|a IHa b IHb|a IHa b IHb|body IH|a IHa|]; intros A s k x H; cbn [rmatch] in H.
  - exists [], s. repeat split; auto. intros; discriminate.
  - destruct s as [|c s']; [discriminate|]. destruct (chr_ok neg l c) eqn:E; [|discriminate].
    exists [c], s'. repeat split; auto. intros _; discriminate.
  - apply IHa in H as (w1 & s1 & -> & H1 & F1 & N1).
    apply IHb in H1 as (w2 & s2 & -> & H2 & F2 & N2).
    exists (w1 ++ w2), s2. rewrite app_assoc. repeat split; auto.
    + apply Forall_app. split.
      * eapply Forall_mayc_weaken; [|exact F1]. intros c Hc. cbn [mayc]. now rewrite Hc.
      * eapply Forall_mayc_weaken; [|exact F2]. intros c Hc. cbn [mayc]. rewrite Hc. now rewrite orb_true_r.
    + cbn [nullable]. intros Hn. apply andb_false_iff in Hn as [Hn|Hn].
      * specialize (N1 Hn). destruct w1; [congruence|discriminate].
      * specialize (N2 Hn). destruct w2; [congruence|]. destruct w1; discriminate.
  - destruct (rmatch a s k) eqn:Ea.
    + inversion H; subst. apply IHa in Ea as (w & s' & -> & H1 & F1 & N1).
      exists w, s'. repeat split; auto.
      * eapply Forall_mayc_weaken; [|exact F1]. intros c Hc. cbn [mayc]. now rewrite Hc.
      * cbn [nullable]. intros Hn. apply orb_false_iff in Hn as [Hn _]. auto.
    + apply IHb in H as (w & s' & -> & H1 & F1 & N1).
      exists w, s'. repeat split; auto.
      * eapply Forall_mayc_weaken; [|exact F1]. intros c Hc. cbn [mayc]. rewrite Hc. now rewrite orb_true_r.
      * cbn [nullable]. intros Hn. apply orb_false_iff in Hn as [_ Hn]. auto.
  - (* star *)
    remember (length s) as n eqn:Hn. clear Hn. revert s H.
    induction n as [|n IHn]; intros s H.
    + exists [], s. repeat split; auto. intros; discriminate.
    + match type of H with match ?m with _ => _ end = _ => destruct m eqn:Eb end.
      * inversion H; subst.
        apply IH in Eb as (w1 & s1 & -> & H1 & F1 & _).
        apply IHn in H1 as (w2 & s2 & -> & H2 & F2 & _).
        exists (w1 ++ w2), s2. rewrite app_assoc. repeat split; auto.
        -- apply Forall_app. split; assumption.
        -- intros; discriminate.
      * exists [], s. repeat split; auto. intros; discriminate.
  - destruct (rmatch a s (fun _ => Some tt)); [discriminate|].
    exists [], s. repeat split; auto. intros; discriminate.
  - destruct (at_end s); [|discriminate].
    exists [], s. repeat split; auto. intros; discriminate.
Qed.

Corollary match_prefix_sound r s rest :
  match_prefix r s = Some rest ->
  exists w, s = w ++ rest /\ Forall (fun c => mayc r c = true) w /\ (nullable r = false -> w <> []).
Proof.
  intros H. apply rmatch_sound in H as (w & s' & -> & H1 & F & Nn).
  inversion H1; subst. now exists w.
Qed.

Lemma only_char_mayc r c : only_char r c = true -> forall d, mayc r d = true -> d = c.
Proof.
  induction r as [|neg l|a IHa b IHb|a IHa b IHb|body IH|a IHa|]; cbn [only_char mayc]; intros H d Hd;
    try discriminate.
  - apply andb_prop in H as [Hneg Hall]. destruct neg; [discriminate|]. cbn [chr_ok] in Hd.
    clear Hneg. induction l as [|[lo hi] l IHl]; cbn [in_ranges] in Hd; [discriminate|].
    cbn [forallb fst snd] in Hall. apply andb_prop in Hall as [H1 H2].
    apply andb_prop in H1 as [Hlo Hhi]. apply N.eqb_eq in Hlo, Hhi. subst.
    destruct ((c <=? d) && (d <=? c)) eqn:E; [|now apply IHl].
    apply andb_prop in E as [E1 E2]. apply N.leb_le in E1, E2. lia.
  - apply andb_prop in H as [H1 H2]. apply orb_prop in Hd as [Hd|Hd]; auto.
  - apply andb_prop in H as [H1 H2]. apply orb_prop in Hd as [Hd|Hd]; auto.
  - auto.
Qed.

(* ------------------------------------------------------------------ *)
(* first-character analysis: if [firstc r c = false], a match of r on an
   input starting with c can only be the empty match *)
Fixpoint firstc (r : rx) (c : N) : bool :=
  match r with
  | Eps | NotAhead _ | AtEnd => false
  | Chr neg l => chr_ok neg l c
  | Cat a b => firstc a c || (nullable a && firstc b c)
  | Alt a b => firstc a c || firstc b c
  | Star a => firstc a c
  end.

Lemma first_sound : forall r A c s (k : list N -> option A) x,
  rmatch r (c :: s) k = Some x -> firstc r c = false ->
  nullable r = true /\ k (c :: s) = Some x.
Proof.
  induction r as [|neg l|a IHa b IHb|a IHa b IHb|body IH|a IHa|]; intros A c s k x H Hf;
    cbn [rmatch firstc nullable] in *.
  - split; [reflexivity|exact H].
  - rewrite Hf in H. discriminate.
  - apply orb_false_iff in Hf as [Hfa Hfb].
    apply IHa in H as [Na H]; [|exact Hfa]. rewrite Na in Hfb. cbn [andb] in Hfb.
    apply IHb in H as [Nb H]; [|exact Hfb]. rewrite Na, Nb. split; [reflexivity|exact H].
  - apply orb_false_iff in Hf as [Hfa Hfb].
    destruct (rmatch a (c :: s) k) eqn:Ea.
    + inversion H; subst. apply IHa in Ea as [Na Ea]; [|exact Hfa]. rewrite Na. split; [reflexivity|exact Ea].
    + apply IHb in H as [Nb H]; [|exact Hfb]. rewrite Nb, orb_true_r. split; [reflexivity|exact H].
  - split; [reflexivity|].
    remember (length (c :: s)) as n eqn:Hn. clear Hn. revert H.
    induction n as [|n IHn]; intros H; [exact H|].
    match type of H with match ?m with _ => _ end = _ => destruct m eqn:Eb end.
    + inversion H; subst. apply IH in Eb as [_ Eb]; [|exact Hf]. now apply IHn.
    + exact H.
  - destruct (rmatch a (c :: s) (fun _ => Some tt)); [discriminate|]. split; [reflexivity|exact H].
  - destruct (at_end (c :: s)); [|discriminate]. split; [reflexivity|exact H].
Qed.

Corollary no_first_no_match r c s :
  nullable r = false -> firstc r c = false -> match_prefix r (c :: s) = None.
Proof.
  intros Hn Hf. unfold match_prefix. destruct (rmatch r (c :: s) (fun s' => Some s')) eqn:E; [|reflexivity].
  apply first_sound in E as [E _]; [congruence|exact Hf].
Qed.

(* Step-counting twin of Base/Regex.v's matcher (cost MODEL of the backtracking
   engine: one step per character test / loop iteration / alternative tried)
   and of the lexer loop.  The count is capped so that evaluation always ends. *)
From Coq Require Import NArith List Bool.
Import ListNotations.
From CXV Require Import Base.Regex.
Open Scope N_scope.

Section Count.
  Variable cap : N.

  (* continuation-passing with a step counter: k rest steps -> (result, steps) *)
  Fixpoint rmatch_n (A : Type) (r : rx) (s : list N) (n : N)
           (k : list N -> N -> option A * N) {struct r} : option A * N :=
    if cap <? n then (None, n) else
    match r with
    | Eps => k s n
    | Chr neg l =>
        match s with
        | c :: s' => if chr_ok neg l c then k s' (n + 1) else (None, n + 1)
        | [] => (None, n + 1)
        end
    | Cat a b => rmatch_n A a s n (fun s' n' => rmatch_n A b s' n' k)
    | Alt a b =>
        match rmatch_n A a s (n + 1) k with
        | (Some x, n') => (Some x, n')
        | (None, n') => rmatch_n A b s n' k
        end
    | Star body =>
        (fix star (fuel : nat) (s : list N) (n : N) {struct fuel} : option A * N :=
           if cap <? n then (None, n) else
           match fuel with
           | O => k s n
           | S f =>
               match rmatch_n A body s (n + 1) (fun s' n' => star f s' n') with
               | (Some x, n') => (Some x, n')
               | (None, n') => k s n'
               end
           end) (length s) s n
    | NotAhead a =>
        match rmatch_n unit a s (n + 1) (fun _ n' => (Some tt, n')) with
        | (Some _, n') => (None, n')
        | (None, n') => k s n'
        end
    | AtEnd => if at_end s then k s (n + 1) else (None, n + 1)
    end.
End Count.
Arguments rmatch_n cap {A} r s n k.

(* steps to try the rules in order at one position; returns (rest if matched, steps) *)
Fixpoint first_match_n (cap : N) (rs : list rx) (s : list N) (n : N) : option (list N) * N :=
  match rs with
  | [] => (None, n)
  | r :: rs' =>
      match rmatch_n cap r s n (fun s' n' => (Some s', n')) with
      | (Some rest, n') => (Some rest, n')
      | (None, n') => if cap <? n' then (None, n') else first_match_n cap rs' s n'
      end
  end.

(* total steps of lexing a text with the rule list (literals / errors: 1 char) *)
Fixpoint lex_cost (cap : N) (rs : list rx) (fuel : nat) (s : list N) (n : N) : N :=
  match fuel with
  | O => n
  | S f =>
      match s with
      | [] => n
      | _ :: s' =>
          match first_match_n cap rs s n with
          | (Some rest, n') =>
              if cap <? n' then n'
              else if Nat.ltb (length rest) (length s) then lex_cost cap rs f rest n' else n'
          | (None, n') => if cap <? n' then n' else lex_cost cap rs f s' (n' + 1)
          end
      end
  end.

"""Representative token texts (C16, C09): every keyword and punctuator verbatim,
several texts per open class chosen to hit prefixes and fusions."""
from harness import impl

KEYWORDS = sorted(impl.L.PlyLexer.keywords)
PUNCT = ["...", "[[", "]]", "::", "&&", "||", "->", "<<", "<", ">", "(", ")", "{", "}", "[", "]", ";", ":", ",",
         "|", "%", "^", "!", "*", "-", "+", "&", "=", ".", "?", "/"]
NAMES = ["x", "_y", "L", "u8", "u", "U", "R", "e5", "x1", "p3", "_km", "E", "f", "l", "~", "~T", "b1", "xF"]
INTS = ["0", "1", "08"[:1] + "7", "42", "1'0", "0x1", "0X1f", "0b1", "1u", "1ull", "0x1'F", "017"]
FLOATS = ["1.", ".5", "1.5", "1e5", "1e+5", "1.f", "0x1p3", "1.5e-3L", "0x.8p1", "9.E2"]
CHARS = ["'a'", "L'a'", "u8'a'", "u'\\n'", "U'\\x41'", "'ab'", "'\\''"]
STRINGS = ["\"s\"", "L\"s\"", "u8\"\"", "u\"a b\"", "U\"\\\"\"", "\"/*\"", "\"//\""]
UDLS = ["12_km", "1.5_s", "\"s\"_x", "'c'_c", "0x1_h"]

ALL = KEYWORDS + PUNCT + NAMES + INTS + FLOATS + CHARS + STRINGS + UDLS

# one representative per token class (for the exhaustive triples)
CLASS_REPS = ["int", "operator", "x", "_km", "42", "0x1", "0b1", "017", "1.5", "1e5", "0x1p3", "'a'", "L'a'", "'ab'", "\"s\"", "u8\"\"",
              "12_km", "\"s\"_x"] + PUNCT


def typed(texts):
    """[(type, text)] by lexing each text alone with the real logical stream; every text must be one token"""
    out = []
    for t in texts:
        ls = impl.L.LexerTokenStream("<r>", t)
        toks = []
        while True:
            x = ls.token_eof_ok()
            if x is None:
                break
            toks.append(x)
        if len(toks) != 1 or toks[0].value != t:
            raise ValueError("representative %r is not one token: %r" % (t, [(x.type, x.value) for x in toks]))
        out.append((toks[0].type, t))
    return out

"""Op-trace correspondence for the token stream (C09, C11): a recording
LexerTokenStream logs every method call the real parser makes and what it got
back; the extracted Stream/TokBuf.v replays the same ops on the same text."""
from harness import impl
from harness.core import run_driver
from harness.lexcorr import enc_loc

L = impl.L
C = impl.CODE


class RecordingStream(L.LexerTokenStream):
    def __init__(self, filename, content):
        super().__init__(filename, content)
        self.ops = []       # encoded op
        self.resp = []      # canonical response
        self.extracted = [] # token lists given to _extract_comments (in call order)
        self._depth = 0

    # -- helpers
    def _log(self, op, resp):
        self.ops.append(op)
        self.resp.append(resp)

    def _call(self, op, fn, *a, **k):
        """call through, logging only outermost calls (token_if* call token_eof_ok internally)"""
        self._depth += 1
        try:
            try:
                r = fn(*a, **k)
            except EOFError:
                if self._depth == 1:
                    self._log(op, [2])
                raise
            except L.LexError:
                if self._depth == 1:
                    self._log(op, [3])
                raise
        finally:
            self._depth -= 1
        return r

    @staticmethod
    def _tok(t):
        return [0] if t is None else [1, t.lexpos, C[t.type]]

    def token(self):
        r = self._call([1], super().token)
        if self._depth == 0:
            self._log([1], self._tok(r))
        return r

    def token_eof_ok(self):
        r = self._call([2], super().token_eof_ok)
        if self._depth == 0:
            self._log([2], self._tok(r))
        return r

    def token_newline_eof_ok(self):
        r = self._call([3], super().token_newline_eof_ok)
        if self._depth == 0:
            self._log([3], self._tok(r))
        return r

    def token_if(self, *types):
        op = [4, len(types)] + [C[t] for t in types]
        r = self._call(op, super().token_if, *types)
        if self._depth == 0:
            self._log(op, self._tok(r))
        return r

    def token_if_in_set(self, types):
        ts = sorted(types, key=lambda t: C[t])
        op = [4, len(ts)] + [C[t] for t in ts]
        r = self._call(op, super().token_if_in_set, types)
        if self._depth == 0:
            self._log(op, self._tok(r))
        return r

    def token_if_val(self, *vals):
        op = [5, len(vals)]
        for v in vals:
            op += [len(v)] + [ord(c) for c in v]
        r = self._call(op, super().token_if_val, *vals)
        if self._depth == 0:
            self._log(op, self._tok(r))
        return r

    def token_if_not(self, *types):
        op = [6, len(types)] + [C[t] for t in types]
        r = self._call(op, super().token_if_not, *types)
        if self._depth == 0:
            self._log(op, self._tok(r))
        return r

    def token_peek_if(self, *types):
        op = [7, len(types)] + [C[t] for t in types]
        r = self._call(op, super().token_peek_if, *types)
        if self._depth == 0:
            self._log(op, [1 if r else 0])
        return r

    def return_token(self, tok):
        super().return_token(tok)
        self._log([8, 1, tok.lexpos], [0])

    def return_tokens(self, toks):
        toks = list(toks)
        super().return_tokens(toks)
        self._log([8, len(toks)] + [t.lexpos for t in toks], [0])

    def _extract_comments(self, comments):
        self.extracted.append(list(comments))
        return super()._extract_comments(comments)

    def get_doxygen(self):
        n0 = len(self.extracted)
        r = self._call([9], super().get_doxygen)
        if self._depth == 0:
            self._log([9], self._dox(r, n0))
        return r

    def get_doxygen_after(self):
        n0 = len(self.extracted)
        r = self._call([10], super().get_doxygen_after)
        if self._depth == 0:
            self._log([10], self._dox(r, n0))
        return r

    def _dox(self, r, n0):
        if r is None:
            return [0]
        # which tokens contributed: the doc-style ones among those handed to _extract_comments;
        # recomputed through the real extractor, token by token
        toks = self.extracted[n0] if len(self.extracted) > n0 else []
        used = [t for t in toks if L.LexerTokenStream._extract_comments(self, [t]) is not None]
        del self.extracted[n0 + 1:]
        # the text must be what the real extractor makes of exactly those tokens
        again = L.LexerTokenStream._extract_comments(self, used)
        del self.extracted[n0 + 1:]
        if again != r:
            return [6, len(used)] + [t.lexpos for t in used]
        return [1, len(used)] + [t.lexpos for t in used]

    def current_location(self):
        r = super().current_location()
        if self._depth == 0:
            self._log([11], enc_loc(r))
        return r


def record_parse(source, filename="<str>", options=None):
    """parse with the recording stream installed; returns (stream, error or None, visitor data)"""
    v = impl.SimpleCxxVisitor()
    p = impl.P.CxxParser(filename, source, v, options)
    rs = RecordingStream(filename, source)
    p.lex = rs
    err = None
    try:
        p.parse()
    except Exception as e:
        err = e
    return rs, err, getattr(v, "data", None)


def model_responses(filename, source, ops):
    flat = []
    for o in ops:
        flat += o
    line = [30, len(filename)] + [ord(c) for c in filename] + [len(source)] + [ord(c) for c in source] + flat
    out = run_driver([line])[0]
    resps = []
    cur = None
    for x in out:
        if x == 77 and (cur is None or True):
            # 77 is the separator; values equal to 77 inside a response are possible, so split by known lengths instead
            pass
    # robust split: re-walk using response shapes
    i = 0
    while i < len(out):
        assert out[i] == 77, out[i:i + 5]
        i += 1
        j = i
        # response ends at next 77 that starts a well-formed response; shapes are short, use op kinds
        k = len(resps)
        kind = ops[k][0]
        if kind in (1, 2, 3, 4, 5, 6):
            n = 3 if out[i] == 1 else 1
        elif kind == 7:
            n = 1
        elif kind == 8:
            n = 1
        elif kind in (9, 10):
            n = 2 + out[i + 1] if out[i] == 1 else 1
        elif kind == 11:
            n = 4
        else:
            n = 1
        resps.append(out[i:i + n])
        i += n
    return resps


def compare(rs, filename, source):
    """returns None or (index, op, impl response, model response)"""
    if not rs.ops:
        return None
    mr = model_responses(filename, source, rs.ops)
    for k, (op, ir) in enumerate(zip(rs.ops, rs.resp)):
        m = mr[k] if k < len(mr) else None
        if m != ir:
            return (k, op, ir, m)
    return None

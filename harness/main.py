import argparse
import importlib
import os
import sys

from harness import core


def main():
    ap = argparse.ArgumentParser()
    ap.add_argument("pid")
    ap.add_argument("--tier", default=os.environ.get("VERIF_TIER", "quick"))
    ap.add_argument("--replay", default=None)
    args = ap.parse_args()
    seed = int(os.environ.get("VERIF_SEED", "20260929"))
    mod = importlib.import_module("harness.props." + args.pid.lower())
    sys.exit(core.run_check(mod, args.tier if args.tier in ("quick", "thorough") else "quick", seed, args.replay))


if __name__ == "__main__":
    main()

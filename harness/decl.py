"""Type trees, an independent declarator printer, generators, and the codecs
between the Coq declarator model (Parse/Declarator.v, DeclSpec.v) and the real
parser / formatter.

A type tree:
  ('B', name, const, volatile)              name: str ('void' or an identifier / richer spelling)
  ('P', t, const, volatile)   pointer to t
  ('R', t) / ('M', t)         lvalue / rvalue reference to t
  ('A', t, size)              array of t; size: tuple of token strings (() = no size)
  ('F', ret, params, vararg)  function; params: tuple of (type, name-or-None)
"""
import itertools

from harness import impl
from cxxheaderparser import types as T

CODE = impl.CODE


# ---------------------------------------------------------------------------
# legality (C++ rules)

def kind(t):
    return {'B': 'B', 'P': 'B', 'R': 'R', 'M': 'R', 'A': 'A', 'F': 'F'}[t[0]]


def legal(t, param=False):
    k = t[0]
    if k == 'B':
        return True
    if k == 'P':
        return legal(t[1]) and kind(t[1]) != 'R'
    if k in 'RM':
        return legal(t[1]) and kind(t[1]) != 'R'
    if k == 'A':
        return legal(t[1]) and kind(t[1]) in 'BA' and not is_void(t[1])
    if k == 'F':
        return legal(t[1]) and kind(t[1]) in 'BR' and all(legal(p) and var_ok(p) for p, _ in t[2])
    raise ValueError(t)


def is_void(t):
    return t[0] == 'B' and t[1] == 'void'


def var_ok(t):
    """can be the type of a variable / parameter: not a function, not plain void, not array of void"""
    return t[0] != 'F' and not is_void(t)


# ---------------------------------------------------------------------------
# the independent printer: works from the INNER end (the way one reads a
# declarator aloud), not from the outer constructor like types.py

def layers(t):
    ls = []
    while t[0] != 'B':
        ls.append(t)
        t = t[1]
    ls.reverse()
    return t, ls            # base, inner-first constructor list


def _is_prefix(l):
    return l[0] in 'PRM'


def print_layers(ls, core):
    """tokens of the declarator whose constructors (inner first) are ls around core"""
    if not ls:
        return list(core)
    l, rest = ls[0], ls[1:]
    if l[0] == 'P':
        return ['*'] + (['const'] if l[2] else []) + (['volatile'] if l[3] else []) + print_layers(rest, core)
    if l[0] == 'R':
        return ['&'] + print_layers(rest, core)
    if l[0] == 'M':
        return ['&&'] + print_layers(rest, core)
    inner = print_layers(rest, core)
    if rest and _is_prefix(rest[0]):
        inner = ['('] + inner + [')']
    if l[0] == 'A':
        return inner + ['['] + list(l[2]) + [']']
    return inner + ['('] + print_params(l[2], l[3]) + [')']


def print_params(params, va):
    parts = [print_decl(p, n) for p, n in params]
    if va:
        parts.append(['...'])
    out = []
    for i, p in enumerate(parts):
        if i:
            out.append(',')
        out += p
    return out


CV_STYLE = 0     # 0: cv before the name; 1: after; 2: const before, volatile after (set by generators that want the variety)


def base_tokens(b):
    c, v = (['const'] if b[2] else []), (['volatile'] if b[3] else [])
    nm = b[1].split()
    if b[1].startswith('decltype') or CV_STYLE == 0:
        return c + v + nm
    if CV_STYLE == 1:
        return nm + v + c
    return c + nm + v


def print_decl(t, name):
    b, ls = layers(t)
    return base_tokens(b) + print_layers(ls, [name] if name else [])


# ---------------------------------------------------------------------------
# generators

SIZES = [(), ('3',), ('N',), ('N', '+', '1'), ('sizeof', '(', 'X', ')'), ('K', '<<', '2'), ('(', 'N', ')', '*', '2')]
BASES = ['void', 'Foo', 'Bar', 'T']


def layer_choices(k, small):
    """constructors that may be applied to a type of kind k"""
    out = []
    cvs = [(False, False), (True, False)] if small else [(False, False), (True, False), (False, True), (True, True)]
    if k != 'R':
        out += [('P', c, v) for c, v in cvs]
        out += [('R',), ('M',)]
    if k in 'BA':
        out += [('A', s) for s in (SIZES[:2] if small else SIZES)]
    if k in 'BR':
        out.append(('F',))
    return out


def apply_layer(t, l, params=(), va=False):
    if l[0] == 'P':
        return ('P', t, l[1], l[2])
    if l[0] == 'R':
        return ('R', t)
    if l[0] == 'M':
        return ('M', t)
    if l[0] == 'A':
        return ('A', t, tuple(l[1]))
    return ('F', t, tuple(params), va)


SMALL_PARAMS = [
    ((), False),
    ((), True),
    (((('B', 'Foo', False, False), None),), False),
    (((('P', ('B', 'Bar', True, False), False, False), 'a'), (('B', 'T', False, False), 'b')), True),
]


def enum_types(depth, bases=None, params=None):
    """all legal types with exactly <= depth constructors (small alphabets)"""
    bases = bases or [('B', 'Foo', False, False), ('B', 'void', False, False), ('B', 'Bar', True, False)]
    params = params or SMALL_PARAMS
    level = list(bases)
    yield from level
    for _ in range(depth):
        nxt = []
        for t in level:
            for l in layer_choices(kind(t), True):
                if l[0] == 'A' and is_void(t):
                    continue
                if l[0] == 'F':
                    for ps, va in params:
                        nxt.append(apply_layer(t, l, ps, va))
                else:
                    nxt.append(apply_layer(t, l))
        yield from nxt
        level = nxt


def rand_type(rng, depth, names=None, pdepth=2):
    base = ('B', rng.choice(BASES), rng.random() < 0.25, rng.random() < 0.1)
    t = base
    n = rng.randint(0, depth)
    for _ in range(n):
        ch = layer_choices(kind(t), False)
        if is_void(t):
            ch = [c for c in ch if c[0] != 'A']
        # weights: favour the interesting suffix/prefix alternation
        l = rng.choice(ch)
        if l[0] == 'F':
            ps = []
            if pdepth > 0:
                for i in range(rng.choice([0, 1, 1, 2, 3])):
                    while True:
                        p = rand_type(rng, max(0, depth - 2), pdepth=pdepth - 1)
                        if var_ok(p):
                            break
                    ps.append((p, rng.choice([None, 'a%d' % i, 'p', '_q', 'r_'])))
            t = apply_layer(t, l, ps, rng.random() < 0.2)
        else:
            t = apply_layer(t, l)
    return t


def depth_of(t):
    return len(layers(t)[1])


# ---------------------------------------------------------------------------
# codecs: tokens <-> model numbers

FUND_BASE = 4000000


class _Rev(dict):
    """value id -> text; ids above FUND_BASE are fundamental type names (Parse/Declarator.v fund_code: the keyword token types
    in order, base 1024 behind a leading 1), decoded to the implementation's spelling 'unsigned long' ..."""

    def __missing__(self, k):
        if isinstance(k, int) and k > FUND_BASE:
            x, ws = k - FUND_BASE, []
            while x > 1:
                ws.append(impl.TT[x % 1024])
                x //= 1024
            return ' '.join(reversed(ws))
        raise KeyError(k)

    def get(self, k, default=None):
        try:
            return self[k]
        except KeyError:
            return default


class Names:
    """value ids: 0 is reserved (void / no value); strings get 1, 2, ..."""

    def __init__(self):
        # two texts the implementation compares by VALUE have fixed ids (Parse/MethodTail.v VAL_override, VAL_zero)
        self.ids = {'override': 1, '0': 2}
        self.rev = _Rev({0: '', 1: 'override', 2: '0'})

    def id(self, s):
        if s not in self.ids:
            self.ids[s] = len(self.ids) + 1
            self.rev[self.ids[s]] = s
        return self.ids[s]


_LEX_CACHE = {}


def tok_type(s):
    """token type of a spelling, by the real lexer"""
    if s not in _LEX_CACHE:
        lx = impl.L.LexerTokenStream(None, s + "\n")
        t = lx.token()
        _LEX_CACHE[s] = t.type
    return _LEX_CACHE[s]


def enc_tokens(strs, names):
    out = []
    for s in strs:
        ty = tok_type(s)
        out += [CODE[ty], names.id(s) if ty not in ('void',) else 0]
    return out


def enc_type(t, names):
    k = t[0]
    if k == 'B':
        return [1, 0 if t[1] == 'void' else names.id(t[1]), int(t[2]), int(t[3])]
    if k == 'P':
        return [2, int(t[2]), int(t[3])] + enc_type(t[1], names)
    if k == 'R':
        return [3] + enc_type(t[1], names)
    if k == 'M':
        return [4] + enc_type(t[1], names)
    if k == 'A':
        return [5, len(t[2])] + enc_tokens(t[2], names) + enc_type(t[1], names)
    out = [6, int(t[3]), len(t[2])]
    for p, n in t[2]:
        out += [0 if n is None else names.id(n) + 1] + enc_type(p, names)
    return out + enc_type(t[1], names)


def dec_type(l, i, names):
    c = l[i]
    if c == 1:
        return ('B', 'void' if l[i + 1] == 0 else names.rev[l[i + 1]], bool(l[i + 2]), bool(l[i + 3])), i + 4
    if c == 2:
        t, j = dec_type(l, i + 3, names)
        return ('P', t, bool(l[i + 1]), bool(l[i + 2])), j
    if c == 3:
        t, j = dec_type(l, i + 1, names)
        return ('R', t), j
    if c == 4:
        t, j = dec_type(l, i + 1, names)
        return ('M', t), j
    if c == 5:
        n = l[i + 1]
        size = tuple(names.rev[l[i + 3 + 2 * k]] if l[i + 3 + 2 * k] else 'void' for k in range(n))
        t, j = dec_type(l, i + 2 + 2 * n, names)
        return ('A', t, size), j
    if c == 6:
        va, n = bool(l[i + 1]), l[i + 2]
        j = i + 3
        ps = []
        for _ in range(n):
            nm = l[j]
            p, j = dec_type(l, j + 1, names)
            ps.append((p, None if nm == 0 else names.rev[nm - 1]))
        t, j = dec_type(l, j, names)
        return ('F', t, tuple(ps), va), j
    raise ValueError("bad type code %r at %d" % (c, i))


def dec_tokens(l, names):
    out = []
    for i in range(0, len(l), 2):
        ty = impl.TT[l[i]]
        out.append(names.rev[l[i + 1]] if l[i + 1] else ty)
    return out


# ---------------------------------------------------------------------------
# the real parser's trees -> type trees

class Unrepresentable(Exception):
    pass


def from_real(d, rich=False):
    if isinstance(d, T.Type):
        segs = d.typename.segments
        if rich:
            name = d.typename.format()
        else:
            if len(segs) != 1 or d.typename.classkey or d.typename.has_typename:
                raise Unrepresentable("qualified base")
            s = segs[0]
            if isinstance(s, T.FundamentalSpecifier):
                name = s.name
            elif isinstance(s, T.NameSpecifier) and s.specialization is None:
                name = s.name
            else:
                raise Unrepresentable(type(s).__name__)
        return ('B', name, d.const, d.volatile)
    if isinstance(d, T.Pointer):
        return ('P', from_real(d.ptr_to, rich), d.const, d.volatile)
    if isinstance(d, T.Reference):
        return ('R', from_real(d.ref_to, rich))
    if isinstance(d, T.MoveReference):
        return ('M', from_real(d.moveref_to, rich))
    if isinstance(d, T.Array):
        size = tuple(t.value for t in d.size.tokens) if d.size is not None else ()
        return ('A', from_real(d.array_of, rich), size)
    if isinstance(d, T.FunctionType):
        if d.has_trailing_return or d.noexcept is not None or d.msvc_convention:
            raise Unrepresentable("function extras")
        ps = []
        for p in d.parameters:
            if p.default is not None or p.param_pack:
                raise Unrepresentable("parameter extras")
            ps.append((from_real(p.type, rich), p.name))
        return ('F', from_real(d.return_type, rich), tuple(ps), d.vararg)
    raise Unrepresentable(type(d).__name__)


def to_real(t):
    """build the parser's dataclasses for a tree (used to exercise the formatters)"""
    k = t[0]
    if k == 'B':
        seg = T.FundamentalSpecifier(t[1]) if t[1] in FUNDAMENTALS else T.NameSpecifier(t[1])
        return T.Type(T.PQName([seg]), const=t[2], volatile=t[3])
    if k == 'P':
        return T.Pointer(to_real(t[1]), const=t[2], volatile=t[3])
    if k == 'R':
        return T.Reference(to_real(t[1]))
    if k == 'M':
        return T.MoveReference(to_real(t[1]))
    if k == 'A':
        return T.Array(to_real(t[1]), T.Value([T.Token(s) for s in t[2]]) if t[2] else None)
    return T.FunctionType(to_real(t[1]), [T.Parameter(to_real(p), n) for p, n in t[2]], vararg=t[3])


FUNDAMENTALS = {'void', 'int', 'char', 'long', 'short', 'float', 'double', 'bool', 'unsigned', 'signed',
                'unsigned int', 'unsigned long', 'long long', 'unsigned char'}


def show(t, name='x'):
    return ' '.join(print_decl(t, name))


def final_as_name(toks):
    """`final` inside a parenthesis: the implementation reads it as a parameter NAME (Parse/ParamsX.v models that); the basic
    parameter model of Parse/Declarator.v, which the statement models use, reads names of type NAME only and stops with code 1"""
    depth = 0
    for t in toks:
        if t == '(':
            depth += 1
        elif t == ')':
            depth = max(0, depth - 1)
        elif t == 'final' and depth > 0:
            return True
    return False

"""Token-soup and expression generators (text level), shared by C13/C14."""

PLAIN = ["x", "y1", "int", "class", "public", ":", ";", ",", "return", "if", "else", "42", "0x1F", "1.5f",
         "'{'", "'('", "'\\''", "\"}{)(\"", "\"a\\\"]\"", "L\"[[\"", "+", "-", "*", "/", "%", "=", "==", "!",
         "&&", "||", "->", "::", "...", ".", "?", "<<", "namespace", "struct", "template", "typename",
         "operator", "static_assert", "private", "virtual", "~", "u8'a'", "R", "/* } ) ] */", "// ) } ]\n",
         "12_km", "\"s\"_x", "this", "new", "throw", "noexcept", "decltype", "sizeof", "#"]
PLAIN_NO_HASH = [p for p in PLAIN if p != "#"]
STRICT = [("(", ")"), ("[", "]"), ("{", "}"), ("[[", "]]")]


def gen_soup(rng, budget, angle=True, kinds=STRICT, plain=PLAIN_NO_HASH):
    """Strict-nested soup (class SN of BalancedThms.v): strict brackets
    properly nested, '<' '>' free when [angle]."""
    out = []
    n = rng.randint(0, budget)
    while n > 0:
        r = rng.random()
        if r < 0.25 and n >= 2:
            o, c = rng.choice(kinds)
            inner = gen_soup(rng, min(n - 2, budget // 2), angle, kinds, plain)
            out.append(o)
            out.extend(inner)
            out.append(c)
            n -= 2 + len(inner)
        elif r < 0.40 and angle:
            out.append(rng.choice(["<", ">", "<", ">", ">=", "<="]))
            n -= 1
        else:
            out.append(rng.choice(plain))
            n -= 1
    return out


SEPS = [" ", " ", " ", "\n", "  ", "\t", " /*c*/ ", "\n\n"]


def render(rng, toks):
    parts = []
    for t in toks:
        parts.append(t)
        if t.endswith("\n"):
            continue
        parts.append(rng.choice(SEPS))
    return "".join(parts)


def render_glued(rng, toks):
    """like render, but two adjacent '[' or two adjacent ']' are written without a separator, so that the lexer glues them
    into its '[[' / ']]' tokens (v[idx[0]]): still bracket-balanced text, and a region that is skipped blindly must not care"""
    parts = []
    for i, t in enumerate(toks):
        parts.append(t)
        if t.endswith("\n"):
            continue
        if i + 1 < len(toks) and t == toks[i + 1] and t in ("[", "]"):
            continue
        parts.append(rng.choice(SEPS))
    return "".join(parts)

"""Differential run for the keyword handlers translated into Gen/Dispatch.v: the interpreter (Parse/DispatchLang.v, extracted,
driver command 111) on the regenerated programs vs the real methods of CxxParser with their continuations recorded."""
from harness import impl, decl
from harness.core import run_driver

HANDLERS = [(0, '_parse_extern', 'extern'), (1, '_parse_inline', 'inline'), (2, '_parse_friend_decl', 'friend'),
            (3, '_parse_typedef', 'typedef'), (4, '_consume_static_assert', 'static_assert'), (5, '_consume_attribute', 'attribute'),
            (6, '_consume_gcc_attribute', '__attribute__'), (7, '_consume_declspec', '__declspec')]
ATTR_KW = ['__attribute__', '__declspec', '[[', 'alignas', 'int']
WORDS = ['"C"', '"C++"', '{', '}', 'template', 'namespace', 'class', 'struct', 'int', 'x', ';', '(', ')', '(', ')', 'Foo', '<', '>', 'inline', 'static',
         '1', ',', '"msg"', '[', ']', '*', 'n']


def real_handler(meth, in_class, kw, strs):
    from cxxheaderparser import parserstate as PS
    from cxxheaderparser import types as T
    toks = [impl.mk_tok(decl.tok_type(s), s) for s in strs]
    p = impl.parser_over(toks)
    got = []

    class Stop(Exception):
        pass

    def show(v):
        if v is None or isinstance(v, bool):
            return v
        if hasattr(v, 'value') and hasattr(v, 'type'):
            return ('tok', v.value)
        return 'template'

    def rec(name):
        def f(*a, **k):
            got.append((name, tuple(show(x) for x in a), tuple(sorted((kk, show(vv)) for kk, vv in k.items())), len(p.lex.tokbuf)))
            raise Stop()
        return f
    for attr, nm_ in (('_parse_declarations', 'decl'), ('_parse_template_instantiation', 'inst'), ('_parse_namespace', 'ns'),
                      ('_consume_gcc_attribute', 'gccattr'), ('_consume_declspec', 'declspec'), ('_consume_attribute_specifier_seq', 'attrseq')):
        if attr != meth:
            setattr(p, attr, rec(nm_))
    if in_class:
        cd = T.ClassDecl(T.PQName([T.NameSpecifier('S')], classkey='struct'))
        p.state = PS.ClassBlockState(p.state, impl.L.Location("<list>", 1), cd, 'public', False, PS.ParsedTypeModifiers({}, {}, {}))
    st0 = p.state
    ktok = impl.mk_tok(decl.tok_type(kw), kw)
    tmpl = T.TemplateDecl([T.TemplateTypeParam('typename', 'T')])
    try:
        if meth == '_parse_friend_decl':
            p._parse_friend_decl(ktok, None, tmpl)
        elif meth == '_consume_attribute':
            p._consume_attribute(ktok)
        else:
            getattr(p, meth)(ktok, None)
    except Stop:
        name, a, k, rest = got[0]
        return ('call', name, a, k, rest)
    except (impl.CxxParseError, EOFError):
        return ('err',)
    except (AssertionError, IndexError, KeyError, AttributeError, TypeError):
        return ('other',)
    if p.state is not st0:
        if isinstance(p.state, PS.ExternBlockState) and p.state.parent is st0:
            return ('extern-block', p.state.linkage, len(p.lex.tokbuf))
        return ('other',)
    return ('done', len(p.lex.tokbuf))


def correspond_dispatch(ctx, corr, only=None):
    """only: the keywords whose handlers the calling property has theorems about (a handler the translator could not translate
    then shows up under those properties and no others)"""
    rng = ctx.rng
    cases = []
    handlers = [x for x in HANDLERS if only is None or x[2] in only]
    for _ in range(ctx.scale(900, 18000)):
        h, meth, kw = rng.choice(handlers)
        if kw == 'attribute':
            kw = rng.choice(ATTR_KW)
        n = rng.choice([0, 1, 2, 3, 5, 8])
        toks = [rng.choice(WORDS) for _ in range(n)]
        if rng.random() < 0.5:
            # shapes the handlers look for
            toks = rng.choice([['"C"', '{'], ['"C"'], ['template', 'class'], ['namespace', 'n', '{'], ['('] + toks + [')'], ['(', '(', ')', '[', ')', ']', ')'], [], ['(', '(', 'x', '(', '1', ')', ')', ')'], ['(', 'align', '(', '8', ')', ')'], ['(', '(', ')']]) + toks
        cases.append((h, meth, kw, rng.random() < 0.35, toks))
    lines, nms = [], []
    for h, meth, kw, ic, toks in cases:
        names = decl.Names()
        lines.append([111, h, int(ic)] + decl.enc_tokens([kw], names) + decl.enc_tokens(toks, names))
        nms.append(names)
    CALLEE = {0: 'decl', 1: 'inst', 2: 'ns', 3: 'gccattr', 4: 'declspec', 5: 'attrseq'}
    KW = {1: 'is_typedef', 2: 'is_friend', 3: 'inline'}
    for (h, meth, kw, ic, toks), o, names in zip(cases, run_driver(lines), nms):
        corr.cases += 1

        def rarg(i):
            c = o[i]
            if c == 0:
                return None, i + 1
            if c == 1:
                return ('tok', names.rev[o[i + 2]] if o[i + 2] else impl.TT[o[i + 1]]), i + 3
            return {2: None, 3: 'template', 4: True, 5: False}[c], i + 1          # (the doxygen argument is None in these runs)
        if o[0] == 0:
            i = 4
            pos = []
            for _ in range(o[3]):
                v, i = rarg(i)
                pos.append(v)
            nk = o[i]
            i += 1
            kws = []
            for _ in range(nk):
                name = KW[o[i]]
                v, i = rarg(i + 1)
                kws.append((name, v))
            m = ('call', CALLEE[o[1]], tuple(pos), tuple(sorted(kws)), o[2])
        elif o[0] == 1:
            v, _ = rarg(2)
            m = ('extern-block', v[1] if v else None, o[1])
        elif o[0] == 2:
            m = ('done', o[1])
        else:
            m = ('err',) if o[1] in (1, 2, 3) else (('untranslated', o[1]) if o[1] == 9 else ('internal', o[1]))
        r = real_handler(meth, ic, kw, toks)
        key = "dispatch:%s:%s/%s" % (meth, m[0], r[0])
        corr.dist[key] = corr.dist.get(key, 0) + 1
        if r[0] != 'other' and m != r:
            corr.disagreements.append(dict(case=dict(kind='corr-dispatch', handler=meth, in_class=ic, tokens=toks), model=str(m)[:300], impl=str(r)[:300],
                                           what="%s %s (%s): translated handler %s, implementation %s" % (kw, ' '.join(toks), 'class' if ic else 'namespace', m, r)))

"""Model-vs-implementation runs for the lexer layer (shared by C06-C10)."""
from harness import impl
from harness.core import run_driver

ERRK = [("Illegal character", 0), ("Invalid octal constant", 1), ("Unmatched '", 2), ("Invalid char constant", 3),
        ("String contains invalid escape code", 4), ("#define", 5), ("preprocessor", 6)]


def enc_loc(loc):
    fn, ln = loc
    fn = fn or ""
    return [0 if ln >= 0 else 1, abs(ln), len(fn), sum(ord(c) for c in fn)]


class LexTimeout(Exception):
    pass


def _alarm(signum, frame):
    raise LexTimeout()


def impl_lex(filename, text, limit=10):
    """canonical raw token stream of the real lexer; [66] when it does not finish within [limit] seconds"""
    import signal
    signal.signal(signal.SIGALRM, _alarm)
    signal.alarm(limit)
    try:
        return _impl_lex(filename, text)
    except LexTimeout:
        return [66]
    finally:
        signal.alarm(0)


def _impl_lex(filename, text):
    L = impl.L
    lx = L.PlyLexer(filename)
    lx.input(text)
    out = []
    try:
        while True:
            tok = lx.token()
            if tok is None:
                break
            out += [1, impl.CODE[tok.type], tok.lexpos, len(tok.value), tok.lineno] + enc_loc(lx.current_location())
        out.append(8)
    except L.LexError as e:
        msg = str(e)
        kind = [k for m, k in ERRK if m in msg]
        out += [9, kind[0] if kind else 99, len(e.tok.value)] + enc_loc(e.tok.location)
    return out


def model_lex(cases):
    """cases: list of (filename, text)"""
    lines = [[20, len(f)] + [ord(c) for c in f] + [ord(c) for c in t] for f, t in cases]
    return run_driver(lines, timeout=180)


def decode_tokens(nums):
    """list of (type code, offset, length, lineno, locline, (flen,fsum)) + end marker"""
    toks = []
    i = 0
    end = None
    while i < len(nums):
        if nums[i] == 1:
            ty, off, ln, line, sg, mag, fl, fs = nums[i + 1:i + 9]
            toks.append((ty, off, ln, line, -mag if sg else mag, (fl, fs)))
            i += 9
        elif nums[i] == 8:
            end = ("done",)
            i += 1
        elif nums[i] == 9:
            kind, tl, sg, mag, fl, fs = nums[i + 1:i + 7]
            end = ("err", kind, tl, -mag if sg else mag, (fl, fs))
            i += 7
        elif nums[i] == 7:
            end = ("fuel",)
            i += 1
        else:
            raise ValueError("bad code")
    return toks, end

"""Text generators for the lexer: token alphabet with separators, literal
grammar, directive lines, mutations, random unicode."""
from harness import impl

KEYWORDS = sorted(impl.L.PlyLexer.keywords)
PUNCT = ["...", "[[", "]]", "::", "&&", "||", "->", "<<", "<", ">", "(", ")", "{", "}", "[", "]", ";", ":", ",",
         "|", "%", "^", "!", "*", "-", "+", "&", "=", ".", "?", "/", "~", "\\", "'"]
NAMES = ["x", "_y", "L", "u8", "u", "U", "R", "e5", "x1", "p3", "_km", "Foo_1", "constx", "intx", "~T", "operatorx"]
SEPS = ["", "", " ", "  ", "\t", "\n", "\r\n", " \n ", "/* c */", "/* x **/", "/* * **/", "/****/", "/* a\n * b */", "// c\n", " \\\n ", "/**/", "//\n", "\r"]
DIRECTIVES = ["#pragma once\n", "#include <a.h>\n", "#include \"b.h\"\n", "#line 7 \"f.h\"\n", "# 12 \"g.h\"\n", "#  line 3 \"h\"\n",
              "#warning hi\n", "# 5 \"x\" 1 2\n", "#line 9 \"a\\\"b\"\n", "#line 0 \"z\"\n"]
BAD_DIRECTIVES = ["#define X 1\n", "#if 1\n", "#endif\n", "#ifdef A\n", "# warning x\n", "#line 5\n", "#line x \"f\"\n", "#undefine\n",
                  "#line  5 \"f\"\n", "#\t5 \"f\"\n", "#line 5 f\n", "# ٥ \"arabic\"\n"]


def gen_int(rng):
    base = rng.choice(["dec", "dec", "oct", "hex", "bin", "zero"])
    sfx = rng.choice(["", "", "", "u", "U", "l", "L", "ul", "uL", "Ul", "UL", "lu", "LU", "ll", "LL", "ull", "uLL", "llu", "LLU", "lL", "z"])
    if base == "dec":
        body = rng.choice("123456789") + "".join(rng.choice("0123456789'") for _ in range(rng.randint(0, 5)))
    elif base == "oct":
        body = "0" + "".join(rng.choice("01234567'") for _ in range(rng.randint(1, 5)))
    elif base == "hex":
        body = rng.choice(["0x", "0X"]) + "".join(rng.choice("0123456789abcdefABCDEF'") for _ in range(rng.randint(1, 6)))
    elif base == "bin":
        body = rng.choice(["0b", "0B"]) + "".join(rng.choice("01'") for _ in range(rng.randint(1, 6)))
    else:
        body = "0"
    return body + sfx


def gen_float(rng):
    d = lambda a, b: "".join(rng.choice("0123456789") for _ in range(rng.randint(a, b)))
    exp = rng.choice(["", "", "e5", "E-3", "e+10", "e"])
    form = rng.randint(0, 5)
    if form == 0:
        s = d(0, 3) + "." + d(1, 3) + exp
    elif form == 1:
        s = d(1, 3) + "." + exp
    elif form == 2:
        s = d(1, 3) + rng.choice(["e5", "E-3", "e+1"])
    elif form == 3:
        h = lambda a, b: "".join(rng.choice("0123456789abcdefABCDEF") for _ in range(rng.randint(a, b)))
        s = rng.choice(["0x", "0X"]) + rng.choice([h(1, 3), h(0, 2) + "." + h(1, 2), h(1, 2) + "."]) + rng.choice(["p3", "P-2", "p+1", "p"])
    elif form == 4:
        s = "." + d(1, 3) + exp
    else:
        s = d(1, 2) + "." + d(1, 2)
    return s + rng.choice(["", "", "f", "F", "l", "L", "q"])


ESCAPES = ["\\n", "\\t", "\\\\", "\\'", "\\\"", "\\0", "\\12", "\\123", "\\x1", "\\x1F", "\\xag", "\\?", "\\a", "\\e", "\\8", "\\x", "\\z", "\\N",
           "\\u00e9", "\\.", "\\-", "\\^", "\\q"]


def gen_char(rng):
    pre = rng.choice(["", "", "L", "u8", "u", "U", "R", "x"])
    n = rng.choice([1, 1, 1, 2, 3, 4, 5, 0])
    body = "".join(rng.choice(["a", "Z", "0", " ", "\"", "é", "中"] + ESCAPES) for _ in range(n))
    end = rng.choice(["'", "'", "'", "'", "", "\n"])
    return pre + "'" + body + end


def gen_string(rng):
    pre = rng.choice(["", "", "L", "u8", "u", "U", "R", "LR"])
    n = rng.randint(0, 6)
    body = "".join(rng.choice(["a", "Z", "0", " ", "'", "é", "/*", "//", "(", "中"] + ESCAPES) for _ in range(n))
    end = rng.choice(["\"", "\"", "\"", "\"", "", "\n"])
    return pre + "\"" + body + end


def gen_literal(rng):
    r = rng.random()
    if r < 0.3:
        s = gen_int(rng)
    elif r < 0.55:
        s = gen_float(rng)
    elif r < 0.75:
        s = gen_char(rng)
    else:
        s = gen_string(rng)
    if rng.random() < 0.25:
        s += rng.choice(["_km", "_s", "_", "s", "if", "_1", "i"])
    return s


def gen_token(rng):
    r = rng.random()
    if r < 0.25:
        return rng.choice(KEYWORDS)
    if r < 0.45:
        return rng.choice(NAMES)
    if r < 0.7:
        return rng.choice(PUNCT)
    return gen_literal(rng)


def gen_text(rng, n):
    parts = []
    for _ in range(n):
        r = rng.random()
        if r < 0.06:
            if parts and not parts[-1].endswith("\n"):
                parts.append("\n")
            parts.append(rng.choice(DIRECTIVES if rng.random() < 0.8 else BAD_DIRECTIVES))
        else:
            parts.append(gen_token(rng))
            parts.append(rng.choice(SEPS))
    return "".join(parts)


def mutate(rng, text):
    if not text:
        return text
    ops = rng.randint(1, 3)
    s = text
    for _ in range(ops):
        i = rng.randrange(len(s) + 1)
        m = rng.random()
        if m < 0.3 and s:
            j = min(len(s), i + rng.randint(1, 3))
            s = s[:i] + s[j:]
        elif m < 0.7:
            s = s[:i] + rng.choice(["'", "\"", "\\", "/*", "*/", "//", "#", "\n", "`", "@", "$", "\x00", "é", "0", "'a", "\r", "..", "<", "[["]) + s[i:]
        else:
            s = s[:i]
    return s


def gen_unicode(rng, n):
    pool = [0, 9, 10, 13, 32, 34, 35, 39, 42, 47, 48, 57, 92, 95, 97, 0x7f, 0x80, 0xe9, 0x660, 0x669, 0x2028, 0x4e2d, 0xff10, 0x1d7ce, 0x10ffff, 0xd7ff, 0xe000]
    return "".join(chr(rng.choice(pool) if rng.random() < 0.7 else rng.randrange(32, 127)) for _ in range(n))

"""C20 -- Entry points and tools agree with one another."""
import ast
import dataclasses
import io
import json
import os
import pathlib
import shutil
import subprocess
import sys
import tempfile

from harness.core import Corr, Search, run_driver, ENV, PY
from harness import impl, blocks
from harness.props import c11

sys.path.insert(0, os.path.join(os.path.dirname(os.path.dirname(os.path.dirname(os.path.abspath(__file__)))), "translate"))
import gen_schema  # noqa: E402

from cxxheaderparser import gentest, simple, types as T, tokfmt as TF  # noqa: E402
from cxxheaderparser.simple import parse_file, parse_string  # noqa: E402

PID = "C20"
TITLE = "Entry points and tools agree with one another"
THEOREM_FILE = "Props/C20.v"
MODELLED = ("nondefault_repr is modelled at the level of expression trees over the regenerated dataclass schema (its body is pinned by hash); "
            "the string rendering and Python's eval/repr of literals, file I/O and decoding, json and argparse are library behaviour: searched")
ASSUMPTIONS = ["atoms (None, bool, int, str) round-trip through repr/eval (CPython)"]

CLASSES = None


def setup():
    global CLASSES
    if CLASSES is None:
        gen_schema.generate()          # fills gen_schema.ATOMS with the numbering used by Gen/Schema.v
        CLASSES = gen_schema.classes()
    return CLASSES


def enc_val(o):
    cl = setup()
    if dataclasses.is_dataclass(o):
        out = [3, cl.index(type(o)) + 1, len(dataclasses.fields(o))]
        for f in dataclasses.fields(o):
            out += enc_val(getattr(o, f.name))
        return out
    if isinstance(o, list):
        out = [1, len(o)]
        for x in o:
            out += enc_val(x)
        return out
    if isinstance(o, dict):
        out = [2, len(o)]
        for k, v in o.items():
            out += [gen_schema.atom(k)] + enc_val(v)
        return out
    return [0, gen_schema.atom(o)]


def enc_expr_from_source(src):
    """the real nondefault_repr string -> the same prefix encoding as Run.enc_expr"""
    cl = setup()
    names = {c.__qualname__: i + 1 for i, c in enumerate(cl)}
    tree = ast.parse(src, mode="eval").body

    def go(n):
        if isinstance(n, ast.Call):
            c = names[ast.unparse(n.func)]
            fields = [f.name for f in dataclasses.fields(cl[c - 1])]
            out = [3, c, len(n.keywords)]
            for kw in n.keywords:
                out += [fields.index(kw.arg)] + go(kw.value)
            return out
        if isinstance(n, ast.List):
            out = [1, len(n.elts)]
            for x in n.elts:
                out += go(x)
            return out
        if isinstance(n, ast.Dict):
            out = [2, len(n.keys)]
            for k, v in zip(n.keys, n.values):
                out += [gen_schema.atom(ast.literal_eval(k))] + go(v)
            return out
        return [0, gen_schema.atom(ast.literal_eval(n))]
    return go(tree)


def sources(ctx, n_gen):
    rng = ctx.rng
    out = list(impl.corpus())
    for _ in range(n_gen):
        out.append(blocks.gen_program(rng, rng.choice([4, 10, 25])).source())
        g = c11.DocGen(rng)
        g.toplevel(rng.choice([2, 5]))
        out.append(g.source())
    return out


def correspond(ctx):
    corr = Corr()
    lines, reals, srcs = [], [], []
    for s in sources(ctx, ctx.scale(60, 1500)):
        try:
            d = parse_string(s)
        except Exception:
            continue
        real = gentest.nondefault_repr(d)
        lines.append([60] + enc_val(d))
        reals.append(real)
        srcs.append(s)
    outs = run_driver(lines)
    for s, real, mo in zip(srcs, reals, outs):
        corr.cases += 1
        want = enc_expr_from_source(real)
        if mo != want:
            corr.disagreements.append(dict(case=dict(source=s), model=mo[:60], impl=want[:60]))
    corr.samples = [dict(source=srcs[0][:200], repr=reals[0][:300])]
    corr.note = "nondefault_repr of real ParsedData (corpus + generated programs): the real string, parsed with ast, vs the extracted Misc/ReprModel.v on the encoded value tree"
    return corr


ENCODINGS = [("utf-8", False), ("utf-8", True), ("utf-8-sig", True), ("latin-1", False), ("utf-16", True), ("cp1252", False)]
NONASCII = {"latin-1": "// café ü\n", "cp1252": "// € euro\n", "utf-8": "// 中文 é \U0001f600\n", "utf-8-sig": "// 中é\n", "utf-16": "// 中文\n"}


class PathLike:
    def __init__(self, p):
        self.p = p

    def __fspath__(self):
        return self.p


def check_entry(src, enc, bom, root, k):
    """parse_file(path, encoding=E) == parse_string(decoded bytes) for several path types; CxxParser+visitor == parse_string"""
    text = NONASCII[enc] + src + "const char* s%d = \"%s\";\n" % (k, NONASCII[enc].strip("/ \n").replace("\\", ""))
    data = text.encode(enc)
    if enc == "utf-8" and bom:
        data = b"\xef\xbb\xbf" + data
    path = os.path.join(root, "f%d.h" % k)
    with open(path, "wb") as fp:
        fp.write(data)
    decoded = data.decode("utf-8-sig" if enc in ("utf-8", "utf-8-sig") else enc)
    try:
        want = parse_string(decoded, filename=path)
    except Exception as e:
        return None
    explicit = None if enc in ("utf-8", "utf-8-sig") and bom else enc
    variants = [("str", path), ("Path", pathlib.Path(path)), ("PathLike", PathLike(path)), ("bytes", os.fsencode(path))]
    for name, p in variants:
        for encarg in ([explicit] if explicit else [None, "utf-8-sig"]):
            try:
                got = parse_file(p, encoding=encarg)
            except Exception as e:
                return "parse_file(%s path, encoding=%r) raised %s: %s" % (name, encarg, type(e).__name__, str(e)[:100])
            if got != want:
                return "parse_file(%s path, encoding=%r) differs from parse_string of the decoded bytes" % (name, encarg)
    # '-' = standard input
    old = sys.stdin
    try:
        sys.stdin = io.StringIO(decoded)
        got = parse_file("-")
    finally:
        sys.stdin = old
    if got != parse_string(decoded, filename="-"):
        return "parse_file('-') differs from parse_string of standard input"
    v = simple.SimpleCxxVisitor()
    impl.P.CxxParser(path, decoded, v).parse()
    if v.data != want:
        return "CxxParser + SimpleCxxVisitor differs from parse_string"
    return None


def check_tools(src, root, k):
    """dump --mode json == asdict; eval(nondefault_repr(data)) == data"""
    try:
        data = parse_string(src)
    except Exception:
        return None
    rep = gentest.nondefault_repr(data)
    ns = {}
    for mod in (T, simple, TF):
        ns.update({n: getattr(mod, n) for n in dir(mod) if not n.startswith("_")})
    try:
        back = eval(rep, ns)
    except Exception as e:
        return "evaluating nondefault_repr raised %s: %s" % (type(e).__name__, str(e)[:100])
    if back != data:
        return "eval(nondefault_repr(data)) != data"
    path = os.path.join(root, "t%d.h" % k)
    with open(path, "w", encoding="utf-8") as fp:
        fp.write(src)
    out = subprocess.run([PY, "-m", "cxxheaderparser", "--mode", "json", path], env=ENV, stdout=subprocess.PIPE, stderr=subprocess.PIPE, timeout=60)
    if out.returncode != 0:
        return "dump --mode json failed: %s" % out.stderr.decode()[-200:]
    want = json.loads(json.dumps(dataclasses.asdict(parse_file(path))))
    if json.loads(out.stdout.decode()) != want:
        return "dump --mode json differs from dataclasses.asdict of the result"
    return None


def search(ctx, boost=False):
    s = Search()
    s.rule = ("valid inputs (corpus + generated, with non-ASCII text in comments and strings) x encodings %s x path types (str, Path, os.PathLike, "
              "bytes, '-') x entry points; compact repr evaluated == data for every input; command-line json dump == asdict for a sample; "
              "non-trivial = input with non-ASCII text or >=3 declarations; distinct = distinct (input, configuration)" % [e for e, _ in ENCODINGS])
    rng = ctx.rng
    root = tempfile.mkdtemp(prefix="verif_c20_")
    try:
        srcs = sources(ctx, ctx.scale(30, 600))
        k = 0
        for src in srcs:
            k += 1
            if "\\\n" in src or "#include" in src and False:
                pass
            enc, bom = ENCODINGS[k % len(ENCODINGS)]
            s.evaluations += 1
            s.nontrivial.add((src, enc, bom))
            s.count("entry:" + enc)
            msg = check_entry(src, enc, bom, root, k)
            if msg:
                s.violations.append(dict(what=msg, case=dict(kind="entry", source=src, enc=enc, bom=bom)))
            s.evaluations += 1
            s.count("repr")
            do_dump = (k % (12 if not ctx.thorough else 3) == 0)
            msg = check_tools(src, root, k) if do_dump else check_tools_nodump(src)
            if msg:
                s.violations.append(dict(what=msg, case=dict(kind="tools", source=src, dump=do_dump)))
        s.samples = [dict(source=srcs[0][:200], encoding=ENCODINGS[1][0])]
    finally:
        shutil.rmtree(root, ignore_errors=True)
    return s


def check_tools_nodump(src):
    try:
        data = parse_string(src)
    except Exception:
        return None
    rep = gentest.nondefault_repr(data)
    ns = {}
    for mod in (T, simple, TF):
        ns.update({n: getattr(mod, n) for n in dir(mod) if not n.startswith("_")})
    try:
        back = eval(rep, ns)
    except Exception as e:
        return "evaluating nondefault_repr raised %s: %s" % (type(e).__name__, str(e)[:100])
    if back != data:
        return "eval(nondefault_repr(data)) != data"
    return None


def replay(ctx, case):
    root = tempfile.mkdtemp(prefix="verif_c20_")
    try:
        if case.get("kind") == "entry":
            m = check_entry(case["source"], case["enc"], case["bom"], root, 1)
        elif case.get("kind") == "tools":
            m = check_tools(case["source"], root, 1) if case.get("dump") else check_tools_nodump(case["source"])
        else:
            m = None
        return [m] if m else []
    finally:
        shutil.rmtree(root, ignore_errors=True)


LEVEL_TEXT = ("Proved in Coq for EVERY well-typed tree of dataclass values over the regenerated schema (any depth): evaluating the compact repr "
              "(omit fields that are not printed/compared or equal their default; constructor calls fill omitted fields with defaults) gives a "
              "value equal to the original under dataclass equality (repr_eval_roundtrip), using schema side conditions checked by computation "
              "(every compared field is printed; every never-printed field has a default). Entry-point equivalence is three recomputed AST facts "
              "(entry_equivalence). Tie: the real nondefault_repr string of real results, parsed with ast, vs the extracted model. Search: "
              "encodings x BOM x path types x '-' x entry points; eval of the real repr; command-line JSON dump vs asdict.")
LEVEL_NOTE = ("Trusted: Coq kernel, translator (schema from live dataclasses, hash pin of _inner_repr), extraction, driver, harness, CPython's "
              "repr/eval/json/codecs. File I/O and decoding are library behaviour: search only.")
TECHNIQUE = "Coq proof of the repr/eval round trip over the regenerated dataclass schema + AST facts + differential run on real results + encoding/path/entry-point search"

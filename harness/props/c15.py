"""C15 -- Parses are isolated from one another."""
import copy
import dataclasses
import json
import subprocess
import threading

from harness.core import Corr, Search, ENV, PY
from harness import impl, blocks, lexgen
from harness.props import c14

from cxxheaderparser.options import ParserOptions

PID = "C15"
TITLE = "Parses are isolated from one another"
THEOREM_FILE = "Props/C15.v"
NEEDS_DRIVER = False
MODELLED = ("only the ownership structure is modelled (each step reads the shared objects and writes its own parse's state); that the code obeys "
            "it is the recomputed write-footprint fact plus run-time snapshots of the shared objects; thread scheduling, the GIL and re's "
            "internal caches are outside any model")
ASSUMPTIONS = ["CPython threads interleave at bytecode boundaries; the re module's compiled-pattern cache is thread-safe"]

POOL_EXTRA = [
    "void f(auto const &x);", "void g(auto x, auto *y);", "template <class T> S(T) -> S<T>;", "int x = a < b; int y = c > d;",
    "struct { int a; } v1; struct { int b; } v2;", "enum { A } e1; union { int u; };", "int bad = $;", "struct S {", "}", "#line 40 \"z.h\"\nint q; int $;",
    "typedef struct { int a; } T1, *PT1;", "void h(int = 3, ...);", "/// doc\nint documented;", "#define X", "'unterminated", "int ok; int bad = 08;",
    "void k(const auto volatile* p);", "auto l(auto... xs) -> decltype(auto);", "template <typename T> concept C = true; void m(C auto const& c);",
]


def outcome(src, filename="<str>", options=None):
    """everything the property lists: result, callbacks (count), error text"""
    try:
        rec, err = blocks.run_real(src, options=options)
        locs = [(l.filename, l.lineno) for l in rec.locs]
        d = impl.parse_string(src, filename=filename, options=options)
        return ("ok", repr(d), tuple(rec.stream), tuple(locs))
    except impl.CxxParseError as e:
        return ("err", str(e))
    except Exception as e:
        return ("exc", type(e).__name__, str(e))


def shared_snapshot():
    P, L = impl.P, impl.L
    from cxxheaderparser import tokfmt as TF, visitor as V
    snap = {}
    for cls in (P.CxxParser, L.TokenStream, L.LexerTokenStream, L.PlyLexer):
        for k, v in vars(cls).items():
            if k.startswith("__") or callable(v) or isinstance(v, (property, staticmethod, classmethod)):
                continue
            if k == "_lexer":
                lx = v
                snap["PlyLexer._lexer"] = None if lx is None else (lx.lexpos, lx.lineno, lx.lexdata, lx.lexstate, len(lx.lexre))
                continue
            try:
                snap["%s.%s" % (cls.__name__, k)] = repr(sorted(v)) if isinstance(v, (set, frozenset)) else repr(v)
            except Exception:
                snap["%s.%s" % (cls.__name__, k)] = str(type(v))
    snap["PhonyEnding"] = repr(sorted(vars(L.PhonyEnding).items()))
    snap["_want_spacing"] = repr(sorted(TF._want_spacing.items()))
    snap["_fuse_pairs"] = repr(sorted(TF._fuse_pairs))
    snap["null_visitor"] = repr(vars(V.null_visitor))
    return snap


def fresh_outcomes(pool):
    """the outcomes in a fresh interpreter (subprocess), one process for the whole pool but each input first in its own process
    would be too slow: the baseline process parses each input once, in pool order, and the in-process solo outcomes are checked
    against it separately"""
    code = (
        "import sys, json\n"
        "sys.path.insert(0, '/verif')\n"
        "from harness.props import c15\n"
        "pool = json.load(sys.stdin)\n"
        "out = []\n"
        "for i, s in enumerate(pool):\n"
        "    out.append(c15.outcome(s))\n"
        "json.dump(out, sys.stdout)\n")
    p = subprocess.run([PY, "-c", code], input=json.dumps(pool), env=ENV, stdout=subprocess.PIPE, stderr=subprocess.PIPE, text=True, timeout=600)
    if p.returncode != 0:
        raise RuntimeError("baseline interpreter failed: " + p.stderr[-500:])
    return [tuple(tuple(tuple(y) if isinstance(y, list) else y for y in x) if isinstance(x, list) else x for x in o) for o in json.loads(p.stdout)]


def norm(o):
    """json round trip turns tuples into lists: compare on a json-normalised form"""
    return json.loads(json.dumps(o))


def single_fresh(src):
    code = ("import sys, json\nsys.path.insert(0, '/verif')\nfrom harness.props import c15\nprint(json.dumps(c15.outcome(sys.stdin.read())))\n")
    p = subprocess.run([PY, "-c", code], input=src, env=ENV, stdout=subprocess.PIPE, stderr=subprocess.PIPE, text=True, timeout=120)
    return json.loads(p.stdout)


class NestingVisitor(impl.SimpleCxxVisitor):
    """starts a nested parse from inside callbacks"""

    def __init__(self, inner_src, sink):
        self.inner_src = inner_src
        self.sink = sink
        self.done = False

    def on_variable(self, state, v):
        if not self.done:
            self.done = True
            self.sink.append(outcome(self.inner_src))
        super().on_variable(state, v)

    def on_class_start(self, state):
        if not self.done:
            self.done = True
            self.sink.append(outcome(self.inner_src))
        return super().on_class_start(state)


def correspond(ctx):
    corr = Corr()
    corr.note = "not applicable: the model is an ownership structure; its premise is the recomputed write-footprint fact, cross-checked by the run-time snapshots of the search"
    return corr


def search(ctx, boost=False):
    s = Search()
    s.rule = ("pool of valid and invalid inputs (corpus sample, generated programs, inputs with anonymous types, 'auto' parameters, #line, lexical "
              "errors): (1) solo outcome (result repr, callback stream, locations, error text) must equal the outcome in a fresh interpreter; "
              "(2) after random sequences of other parses; (3) when started from inside another parse's callback; (4) in 16 concurrent threads; "
              "(5) snapshots of every shared object (class-level tables, PhonyEnding, lexer prototype, null_visitor, spacing tables) before/after; "
              "non-trivial = history with >=2 parses; distinct = distinct (history)")
    rng = ctx.rng
    pool = list(POOL_EXTRA)
    pool += rng.sample(impl.corpus(), ctx.scale(25, 120))
    for _ in range(ctx.scale(10, 100)):
        pool.append(blocks.gen_program(rng, rng.choice([4, 10])).source())
    for _ in range(ctx.scale(10, 100)):
        pool.append(lexgen.mutate(rng, rng.choice(impl.corpus())))
    impl.L.PlyLexer("warm-up")          # the prototype is built by the first instance; from then on it must never change
    snap0 = shared_snapshot()
    # (1) fresh interpreter baseline: every input alone in its own interpreter for a sample, the pool in one for the rest
    # baseline: the hand-picked inputs (which include the ones most likely to leave traces) each in its own fresh interpreter,
    # the rest in-process (a sample of those is compared with a fresh interpreter below)
    base = [single_fresh(src) if i < len(POOL_EXTRA) else None for i, src in enumerate(pool)]
    for i, src in enumerate(pool):
        if base[i] is None:
            base[i] = norm(outcome(src))
        else:
            s.evaluations += 1
            s.count("fresh-interpreter")
            if norm(outcome(src)) != base[i]:
                s.violations.append(dict(what="outcome in this interpreter (after earlier parses) differs from the outcome in a fresh interpreter",
                                         case=dict(kind="sequence", sources=pool[:i + 1])))
    for i in rng.sample(range(len(pool)), ctx.scale(12, 80)):
        s.evaluations += 1
        s.count("fresh-interpreter")
        f = single_fresh(pool[i])
        if f != base[i]:
            s.violations.append(dict(what="outcome in this interpreter differs from the outcome in a fresh interpreter",
                                     case=dict(kind="fresh", source=pool[i])))
    # (2) sequences
    for _ in range(ctx.scale(150, 4000) * (3 if boost else 1)):
        k = rng.randint(2, 6)
        idx = [rng.randrange(len(pool)) for _ in range(k)]
        s.evaluations += 1
        s.nontrivial.add(("seq",) + tuple(idx))
        s.count("sequence")
        for j in idx[:-1]:
            outcome(pool[j])
        got = norm(outcome(pool[idx[-1]]))
        if got != base[idx[-1]]:
            s.violations.append(dict(what="outcome after a sequence of other parses differs from the solo outcome",
                                     case=dict(kind="sequence", sources=[pool[j] for j in idx])))
    # (3) nested
    for _ in range(ctx.scale(80, 2000)):
        a, b = rng.randrange(len(pool)), rng.randrange(len(pool))
        sink = []
        v = NestingVisitor(pool[b], sink)
        try:
            impl.P.CxxParser("<str>", pool[a], v).parse()
            outer = ("ok", repr(v.data))
        except impl.CxxParseError as e:
            outer = ("err", str(e))
        except Exception as e:
            outer = ("exc", type(e).__name__, str(e))
        s.evaluations += 1
        s.nontrivial.add(("nest", a, b))
        s.count("nested")
        if sink and norm(sink[0]) != base[b]:
            s.violations.append(dict(what="a parse started from inside a callback differs from its solo outcome",
                                     case=dict(kind="nested", outer=pool[a], inner=pool[b])))
        if base[a][0] == "ok" and outer[0] == "ok" and outer[1] != base[a][1]:
            s.violations.append(dict(what="a parse is changed by a nested parse started from its callback",
                                     case=dict(kind="nested", outer=pool[a], inner=pool[b])))
    # (4) threads
    for _ in range(ctx.scale(6, 60)):
        idx = [rng.randrange(len(pool)) for _ in range(16)]
        res = [None] * 16

        def work(t):
            for _ in range(3):
                res[t] = norm(outcome(pool[idx[t]]))
        ths = [threading.Thread(target=work, args=(t,)) for t in range(16)]
        for t in ths:
            t.start()
        for t in ths:
            t.join()
        s.evaluations += 16
        s.nontrivial.add(("threads",) + tuple(idx))
        s.count("threads")
        for t in range(16):
            if res[t] != base[idx[t]]:
                s.violations.append(dict(what="a parse running concurrently with 15 others differs from its solo outcome",
                                         case=dict(kind="threads", sources=[pool[j] for j in idx], which=t)))
                break
    # (5) shared objects unchanged
    snap1 = shared_snapshot()
    s.evaluations += 1
    if snap1 != snap0:
        changed = [k for k in snap0 if snap0[k] != snap1.get(k)]
        s.violations.append(dict(what="shared objects were modified by parsing: %s" % changed, case=dict(kind="snapshot", changed=changed)))
    # (6) solo outcomes again, after everything above
    for i, src in enumerate(pool):
        if norm(outcome(src)) != base[i]:
            s.violations.append(dict(what="outcome changed after the histories above", case=dict(kind="sequence", sources=[src])))
            break
    s.samples = [dict(history="sequence", sources=[pool[0], pool[1]]), dict(history="nested", outer=pool[2], inner=pool[0])]
    return s


def replay(ctx, case):
    k = case.get("kind")
    if k == "fresh":
        return ["differs from fresh interpreter"] if single_fresh(case["source"]) != norm(outcome(case["source"])) else []
    if k == "sequence":
        srcs = case["sources"]
        f = single_fresh(srcs[-1])
        for x in srcs[:-1]:
            outcome(x)
        return ["differs after the sequence"] if norm(outcome(srcs[-1])) != f else []
    if k == "nested":
        f = single_fresh(case["inner"])
        sink = []
        try:
            impl.P.CxxParser("<str>", case["outer"], NestingVisitor(case["inner"], sink)).parse()
        except Exception:
            pass
        return ["nested parse differs"] if sink and norm(sink[0]) != f else []
    return []


LEVEL_TEXT = ("Proved in Coq: for every history (any interleaving of the steps of any number of parses: earlier, failed, nested from callbacks, "
              "concurrent) the state of a parse equals the state it reaches alone, when steps write only their own parse's state "
              "(isolation_partial); a clone of the never-advanced lexer prototype is a fresh lexer (clone_is_fresh). The premise is not assumed: "
              "a write-footprint scan recomputed on every run shows that no statement stores to, mutates through a method or lets escape into "
              "results any class-level or module-level mutable object, and that the prototype is only cloned (shared_state_is_read_only). "
              "Search: fresh-interpreter baseline, random sequences, nested parses from callbacks, 16 concurrent threads, snapshots of all "
              "shared objects before/after. Partial: thread scheduling/GIL/re caches are not modelled.")
LEVEL_NOTE = ("Trusted: Coq kernel, translator (footprint scan with a conservative alias rule), harness, CPython. The scan is syntactic: aliasing "
              "through containers it does not follow is covered only by the run-time snapshots and outcome comparison.")
TECHNIQUE = "Coq non-interference proof over an ownership model + recomputed write-footprint fact + history/nesting/thread search with fresh-interpreter baseline and shared-object snapshots"

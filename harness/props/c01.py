"""C01 -- Namespace-scope declarations are extracted faithfully."""
import dataclasses
import typing

from harness.core import Corr, Search, run_driver
from harness import impl, decl, astgen
from harness.props import c02
from cxxheaderparser.simple import parse_string
from cxxheaderparser import types as T, simple as S

PID = "C01"
TITLE = "Namespace-scope declarations are extracted faithfully"
THEOREM_FILE = "Props/C01.v"
MODELLED = ("modelled and proved (each model a hand-written mirror tied by a differential run and an AST-digest pin): the declarator core "
            "(Parse/Declarator.v), the specifier loop of _parse_type and validate (Specs), the way _parse_declarations / _parse_decl put one "
            "statement together at namespace scope -- variables with initialisers and function declarators with exception specifications mixed in "
            "one declarator list, a body or `= delete` behind the last function (DeclStmt, over VarStmt / Init / FnTail) --, typedef and field "
            "statements (Members), parameter lists with defaults and packs (ParamsX), template parameter lists (Template), enumerator lists and enum "
            "declarations (EnumList, EnumDecl), the three using statements (Using), qualified names (PQName), the namespace header (NsHeader), the "
            "dispatch loop of parse (TopLoop) and the collecting visitor as a fold over the block forest (Fold). "
            "Also modelled: operator functions (OperatorFn), method definitions outside their class (MethodImpl), explicit instantiations "
            "(TemplateInst), template statements and concepts (TemplateStmt), requires-clauses (Requires, under C14); the keyword handlers in front "
            "of a declaration are translated from the code (Gen/Dispatch.v). "
            "NOT modelled (decided by the AST-first search only): decltype, trailing return types, msvc calling conventions, abbreviated templates, "
            "deduction guides, constructors / destructors defined outside their class, names with template arguments in declarator position, "
            "attributes other than on enumerators, preprocessor directives, and the location / doxygen plumbing of the handlers")
ASSUMPTIONS = c02.ASSUMPTIONS + ["search programs use the supported positions of ignored decorations (before a declaration; static_assert as a statement)"]

KNOWN_CLASSIFIERS = {
    "requires_drops_scope": lambda case: case.get("kind") == "fixed" and case.get("name") == "requires_qualified",
}


def KNOWN_WITNESS_CHECK(entry):
    if entry["id"] == "F29":
        d = parse_string(entry["witness"])
        toks = [t.value for t in d.namespace.functions[0].template.raw_requires_pre.tokens]
        return "::" not in toks
    return False


# ---------------------------------------------------------------------------
# correspondence: the declarator loop

def real_decls(text, site='variable'):
    """the same declarator loop is reached from three call sites: variables, typedefs, class fields"""
    if site == 'typedef':
        return real_typedefs('typedef ' + text)
    if site == 'field':
        return real_fields('struct S_ { ' + text + ' };')
    try:
        d = parse_string(text)
    except (impl.CxxParseError, AssertionError, RecursionError):
        return ('err',)
    ns = d.namespace
    if ns.functions or ns.typedefs or ns.classes or ns.using_alias or ns.enums or ns.forward_decls or not ns.variables:
        return ('other',)
    out = []
    for v in ns.variables:
        if v.value is not None or v.static or v.extern or v.constexpr or v.inline or v.template or len(v.name.segments) != 1:
            return ('other',)
        try:
            out.append((v.name.segments[0].name, decl.from_real(v.type)))
        except decl.Unrepresentable:
            return ('other',)
    return ('ok', out)


def real_typedefs(text):
    try:
        d = parse_string(text)
    except (impl.CxxParseError, AssertionError, RecursionError):
        return ('err',)
    ns = d.namespace
    if ns.functions or ns.variables or ns.classes or ns.using_alias or ns.enums or ns.forward_decls or not ns.typedefs:
        return ('other',)
    try:
        return ('ok', [(t.name, decl.from_real(t.type)) for t in ns.typedefs])
    except decl.Unrepresentable:
        return ('other',)


def real_fields(text):
    try:
        d = parse_string(text)
    except (impl.CxxParseError, AssertionError, RecursionError):
        return ('err',)
    ns = d.namespace
    if len(ns.classes) != 1 or ns.functions or ns.variables or ns.typedefs:
        return ('other',)
    c = ns.classes[0]
    if c.methods or c.classes or c.typedefs or c.enums or c.using or c.using_alias or c.friends or c.forward_decls or not c.fields:
        return ('other',)
    out = []
    for f in c.fields:
        if f.value is not None or f.bits is not None or f.static or f.constexpr or f.mutable or f.inline or f.access != 'public' or f.name is None:
            return ('other',)
        try:
            out.append((f.name, decl.from_real(f.type)))
        except decl.Unrepresentable:
            return ('other',)
    return ('ok', out)


def gen_decl_stmt(rng):
    base = ('B', rng.choice(['Foo', 'Bar', 'T']), rng.random() < 0.3, rng.random() < 0.1)
    n = rng.choice([1, 2, 2, 3, 4])
    items = []
    toks = decl.base_tokens(base)
    for i in range(n):
        while True:
            t = decl.rand_type(rng, rng.choice([0, 1, 2, 4, 6]))
            b, ls = decl.layers(t)
            t2 = rebase(t, base)
            if decl.legal(t2) and decl.var_ok(t2):
                break
        name = 'v%d' % i
        if i:
            toks.append(',')
        toks += decl.print_layers(decl.layers(t2)[1], [name])
        items.append((name, t2))
    toks.append(';')
    return toks, items


def rebase(t, base):
    k = t[0]
    if k == 'B':
        return base
    if k == 'P':
        return ('P', rebase(t[1], base), t[2], t[3])
    if k in 'RM':
        return (k, rebase(t[1], base))
    if k == 'A':
        return ('A', rebase(t[1], base), t[2])
    return ('F', rebase(t[1], base), t[2], t[3])


def model_decls(cases):
    lines, nms = [], []
    for toks, n in cases:
        names = decl.Names()
        lines.append([82, n] + decl.enc_tokens(toks, names))
        nms.append(names)
    outs = run_driver(lines)
    res = []
    for o, names in zip(outs, nms):
        if o[0] != 0:
            res.append(('err', o[1]))
            continue
        rest, k = o[1], o[2]
        i = 3
        items = []
        for _ in range(k):
            name = names.rev.get(o[i], '?')
            ln = o[i + 1]
            t, _j = decl.dec_type(o, i + 2, names)
            items.append((name, t))
            i += 2 + ln
        res.append(('ok', items, rest))
    return res


def compare(m, r):
    if m[0] == 'ok':
        if m[2] != 0:
            return None
        if r[0] != 'ok':
            return "model reports %d declarators but the implementation %s" % (len(m[1]), "rejects the input" if r[0] == 'err' else "reports something else")
        if r[1] != m[1]:
            return "model: %s; implementation: %s" % ('; '.join(decl.show(t, n) for n, t in m[1]), '; '.join(decl.show(t, n) for n, t in r[1]))
        return None
    if m[1] == 9:
        return None if False else "model ran out of fuel / declarator budget"
    if m[1] in (1, 2, 3) and r[0] == 'ok':
        return "model rejects (code %d) but the implementation reports %s" % (m[1], '; '.join(decl.show(t, n) for n, t in r[1]))
    return None


def real_fn(text):
    try:
        d = parse_string(text)
    except (impl.CxxParseError, AssertionError, RecursionError):
        return ('err',)
    ns = d.namespace
    if len(ns.functions) != 1 or ns.variables or ns.typedefs or ns.classes or ns.using_alias or ns.enums or ns.forward_decls or ns.method_impls:
        return ('other',)
    f = ns.functions[0]
    if (f.constexpr or f.extern or f.static or f.inline or f.deleted or f.has_body or f.has_trailing_return or f.template or f.throw
            or f.noexcept or f.msvc_convention or f.operator or f.raw_requires or len(f.name.segments) != 1):
        return ('other',)
    try:
        ps = []
        for p in f.parameters:
            if p.default is not None or p.param_pack:
                return ('other',)
            ps.append((decl.from_real(p.type), p.name))
        return ('ok', f.name.segments[0].name, ('F', decl.from_real(f.return_type), tuple(ps), f.vararg))
    except decl.Unrepresentable:
        return ('other',)


def gen_fn_stmt(rng):
    while True:
        rt = decl.rand_type(rng, rng.choice([0, 1, 2, 3, 5]))
        if decl.kind(rt) in 'BR' and rt[0] != 'F':
            break
    ps = []
    for i in range(rng.choice([0, 1, 1, 2, 3])):
        while True:
            p = decl.rand_type(rng, rng.choice([0, 1, 2, 4]))
            if decl.var_ok(p):
                break
        ps.append((p, rng.choice([None, 'a%d' % i, '_q'])))
    t = ('F', rt, tuple(ps), rng.random() < 0.2)
    if not decl.legal(t):
        return gen_fn_stmt(rng)
    return decl.print_decl(t, 'fn') + [';'], t


def model_fns(toklists):
    lines, nms = [], []
    for toks in toklists:
        names = decl.Names()
        lines.append([83] + decl.enc_tokens(toks, names))
        nms.append(names)
    outs = run_driver(lines)
    res = []
    for o, names in zip(outs, nms):
        if o[0] == 0:
            t, _ = decl.dec_type(o, 3, names)
            res.append(('ok', names.rev.get(o[1], '?'), t, o[2]))
        else:
            res.append(('err', o[1]))
    return res


def compare_fn(m, r):
    if m[0] == 'ok':
        if m[3] != 1:
            return None            # the model stopped before the ';' (function tails are outside fn_decl)
        if r[0] != 'ok':
            return "model decodes the function %s but the implementation %s" % (decl.show(m[2], m[1]), "rejects the input" if r[0] == 'err' else "reports something else")
        if (r[1], r[2]) != (m[1], m[2]):
            return "model: %s; implementation: %s" % (decl.show(m[2], m[1]), decl.show(r[2], r[1]))
        return None
    if m[1] == 9:
        return "model ran out of fuel"
    if m[1] in (1, 2, 3) and r[0] == 'ok':
        return "model rejects (code %d) but the implementation reports %s" % (m[1], decl.show(r[2], r[1]))
    return None


def correspond_fns(ctx, corr):
    rng = ctx.rng
    cases, metas = [], []
    for _ in range(ctx.scale(800, 15000)):
        toks, t = gen_fn_stmt(rng)
        cases.append(toks)
        metas.append(('fn-valid', t))
        if rng.random() < 0.5:
            cases.append(c02.mutate(rng, toks[:-1]) + [';'])
            metas.append(('fn-mutated', None))
    ms = model_fns(cases)
    for toks, (kind, t), m in zip(cases, metas, ms):
        corr.cases += 1
        r = real_fn(' '.join(toks))
        key = kind + ":" + (m[0] if m[0] == 'ok' else 'err%d' % m[1]) + "/" + r[0]
        corr.dist[key] = corr.dist.get(key, 0) + 1
        msg = compare_fn(m, r)
        if msg is None and kind == 'fn-valid' and (m[0] != 'ok' or m[2] != t):
            msg = "model does not decode the printed function declaration `%s`" % ' '.join(toks)
        if msg:
            corr.disagreements.append(dict(case=dict(kind='corr-fn', tokens=toks), model=str(m)[:300], impl=str(r)[:300], what=msg))


ENUM_VALUES = [['1'], ['1', '<<', '2'], ['(', 'A', '|', 'B', ')'], ['f', '(', '1', ',', '2', ')'], ['sizeof', '(', 'int', ')'], ["'x'"],
               ['a', '[', '1', ',', '2', ']', '+', '1'], ['X', '{', '1', ',', '2', '}'], ['-', '1'], ['N', '*', '(', '2', '+', 'K', ')'], []]


def real_enum(text):
    try:
        d = parse_string(text)
    except (impl.CxxParseError, AssertionError, RecursionError):
        return ('err',)
    ns = d.namespace
    if len(ns.enums) != 1 or ns.variables or ns.functions or ns.typedefs or ns.classes:
        return ('other',)
    out = []
    for e in ns.enums[0].values:
        out.append((e.name, None if e.value is None else tuple(t.value for t in e.value.tokens)))
    return ('ok', out)


def model_enums(bodies):
    lines, nms = [], []
    for toks in bodies:
        names = decl.Names()
        lines.append([84, len(toks) + 2] + decl.enc_tokens(toks, names))
        nms.append(names)
    outs = run_driver(lines)
    res = []
    for o, names in zip(outs, nms):
        if o[0] != 0:
            res.append(('err', o[1]))
            continue
        rest, k = o[1], o[2]
        i = 3
        items = []
        for _ in range(k):
            name = names.rev.get(o[i], '?')
            if o[i + 1] == 0:
                items.append((name, None))
                i += 2
            else:
                ln = o[i + 2]
                vals = tuple(names.rev[o[i + 3 + 2 * j + 1]] if o[i + 3 + 2 * j + 1] else impl.TT[o[i + 3 + 2 * j]] for j in range(ln))
                items.append((name, vals))
                i += 3 + 2 * ln
        res.append(('ok', items, rest))
    return res


ENUM_ATTRS = [['deprecated'], [], ['deprecated', '(', '"x"', ')'], ['gnu', '::', 'unused', ',', 'maybe_unused'], ['a', '(', '[', '1', ']', ',', '{', '}', ')'],
              ['using', 'gnu', ':', 'x'], ['a', '<', 'b']]


def correspond_enums(ctx, corr):
    rng = ctx.rng
    bodies, metas = [], []
    for _ in range(ctx.scale(600, 12000)):
        items = []
        toks = []
        n = rng.choice([0, 1, 2, 3, 5])
        for i in range(n):
            v = rng.choice([None, None] + ENUM_VALUES)
            items.append(('K%d' % i, None if v is None else tuple(v)))
            if i:
                toks.append(',')
            toks.append('K%d' % i)
            if rng.random() < 0.3:
                # attribute-specifier-seq behind the name: a [[ ]] group first, then any mix of [[ ]] and alignas( )
                toks += ['[['] + rng.choice(ENUM_ATTRS) + [']]']
                for _ in range(rng.choice([0, 0, 1, 2])):
                    if rng.random() < 0.5:
                        toks += ['[['] + rng.choice(ENUM_ATTRS) + [']]']
                    else:
                        toks += ['alignas', '('] + rng.choice([['8'], ['int'], ['sizeof', '(', 'X', ')']]) + [')']
            if v is not None:
                toks += ['='] + list(v)
        if n and rng.random() < 0.3:
            toks.append(',')
        toks += ['}', ';']
        bodies.append(toks)
        metas.append(('enum-valid', items))
        if rng.random() < 0.5 and len(toks) > 3:
            bodies.append(c02.mutate(rng, toks[:-2]) + ['}', ';'])
            metas.append(('enum-mutated', None))
    ms = model_enums(bodies)
    for toks, (kind, items), m in zip(bodies, metas, ms):
        corr.cases += 1
        r = real_enum('enum E { ' + ' '.join(toks))
        key = kind + ":" + (m[0] if m[0] == 'ok' else 'err%d' % m[1]) + "/" + r[0]
        corr.dist[key] = corr.dist.get(key, 0) + 1
        msg = None
        if m[0] == 'ok' and m[2] == 1:
            if r[0] != 'ok':
                msg = "model reports %d enumerators but the implementation %s" % (len(m[1]), "rejects the input" if r[0] == 'err' else "reports something else")
            elif r[1] != m[1]:
                msg = "model: %s; implementation: %s" % (m[1], r[1])
        elif m[0] == 'err' and m[1] in (1, 2, 3) and r[0] == 'ok':
            msg = "model rejects (code %d) but the implementation reports %s" % (m[1], r[1])
        elif m[0] == 'err' and m[1] == 9:
            msg = "model ran out of budget"
        if msg is None and kind == 'enum-valid' and (m[0] != 'ok' or m[1] != items):
            msg = "model does not decode the printed enumerator list `%s`" % ' '.join(toks)
        if msg:
            corr.disagreements.append(dict(case=dict(kind='corr-enum', tokens=toks), model=str(m)[:300], impl=str(r)[:300], what=msg))


SPEC_KWS = ['const', 'volatile', 'constexpr', 'extern', 'inline', '__inline', '__forceinline', 'static', 'explicit', 'virtual', 'mutable']
SPEC_STOPS = ['x', '*', '&', '&&', '(', ';', '=', '[', ',', ')', '3', '"C"', 'void', 'operator', '::', '<', '{']


def real_specs(strs):
    """the real _parse_type on a token list -> ('ok', name, flags(9), remaining) | ('err',)"""
    toks = [impl.mk_tok(decl.tok_type(s), s) for s in strs]
    p = impl.parser_over(toks)
    try:
        pt, mods = p._parse_type(None)
    except (impl.CxxParseError, EOFError):
        return ('err',)
    except (AssertionError, IndexError, KeyError, AttributeError):
        return ('other',)
    if pt is None:
        return ('other',)
    segs = pt.typename.segments
    if len(segs) != 1 or pt.typename.classkey or pt.typename.has_typename or getattr(segs[0], 'specialization', None) is not None or not hasattr(segs[0], 'name'):
        return ('other',)
    flags = (pt.const, pt.volatile, 'constexpr' in mods.both, 'extern' in mods.both, 'inline' in mods.both, 'static' in mods.both,
             'explicit' in mods.meths, 'virtual' in mods.meths, 'mutable' in mods.vars)
    return ('ok', segs[0].name, tuple(bool(f) for f in flags), len(p.lex.tokbuf))


def correspond_specs(ctx, corr):
    rng = ctx.rng
    cases = []
    for _ in range(ctx.scale(1500, 30000)):
        pre = [rng.choice(SPEC_KWS) for _ in range(rng.choice([0, 0, 1, 2, 3, 5]))]
        post = [rng.choice(SPEC_KWS) for _ in range(rng.choice([0, 0, 0, 1, 2]))]
        name = rng.choice(['Foo', 'void', 'T'])
        tail = [rng.choice(SPEC_STOPS)] + [rng.choice(SPEC_STOPS + SPEC_KWS) for _ in range(rng.choice([0, 1, 2]))]
        toks = pre + [name] + post + tail
        if rng.random() < 0.25:
            toks = c02.mutate(rng, toks) or ['x']
            toks = [t for t in toks if t not in ('...',)] or ['x']
        if rng.random() < 0.15 and 'extern' in toks:
            i = toks.index('extern')
            toks.insert(i + 1, '"C"')
        cases.append(toks)
    lines, nms = [], []
    for toks in cases:
        names = decl.Names()
        lines.append([88] + decl.enc_tokens(toks, names))
        nms.append(names)
    outs = run_driver(lines)
    for toks, o, names in zip(cases, outs, nms):
        corr.cases += 1
        if o[0] == 0:
            m = ('ok', 'void' if o[2] == 0 else names.rev.get(o[2], '?'), tuple(bool(x) for x in o[3:12]), o[1])
        else:
            m = ('err', o[1])
        r = real_specs(toks)
        key = "specs:" + m[0] + "/" + r[0]
        corr.dist[key] = corr.dist.get(key, 0) + 1
        if r[0] == 'other' or m == ('err', 4):          # code 4: outside the model (qualified / templated names)
            continue
        if (m[0] == 'ok') != (r[0] == 'ok') or (m[0] == 'ok' and m != r):
            corr.disagreements.append(dict(case=dict(kind='corr-specs', tokens=toks), model=str(m), impl=str(r),
                                           what="specifier loop on `%s`: model %s, implementation %s" % (' '.join(toks), m, r)))


def real_stmt(text):
    try:
        d = parse_string(text)
    except (impl.CxxParseError, AssertionError, RecursionError):
        return ('err',)
    ns = d.namespace
    if ns.functions or ns.typedefs or ns.classes or ns.using_alias or ns.enums or ns.forward_decls or not ns.variables:
        return ('other',)
    out = []
    flags = None
    for v in ns.variables:
        if v.value is not None or v.template or len(v.name.segments) != 1:
            return ('other',)
        f = (v.constexpr, v.extern, v.inline, v.static)
        if flags is not None and f != flags:
            return ('other',)
        flags = f
        try:
            out.append((v.name.segments[0].name, decl.from_real(v.type)))
        except decl.Unrepresentable:
            return ('other',)
    return ('ok', flags, out)


def correspond_stmts(ctx, corr):
    """whole variable statements with specifiers: var_stmt (specifier loop + validate + declarator loop) vs parse_string"""
    rng = ctx.rng
    cases = []
    for _ in range(ctx.scale(800, 16000)):
        toks, items = gen_decl_stmt(rng)
        base_len = len(decl.base_tokens(decl.layers(items[0][1])[0]))
        base = toks[:base_len]
        rest = toks[base_len:]
        kws = ['constexpr', 'extern', 'inline', 'static', 'const', 'volatile'] + (['explicit', 'virtual', 'mutable', '__inline'] if rng.random() < 0.15 else [])
        pre = [rng.choice(kws) for _ in range(rng.choice([0, 1, 1, 2, 3]))]
        post = [rng.choice(['const', 'volatile', 'static', 'constexpr']) for _ in range(rng.choice([0, 0, 0, 1]))]
        name_i = [i for i, t in enumerate(base) if t not in ('const', 'volatile')][0]
        stmt = pre + base[:name_i + 1] + post + base[name_i + 1:] + rest
        cases.append((stmt, len(items)))
        if rng.random() < 0.3:
            mt = c02.mutate(rng, stmt[:-1]) + [';']
            cases.append((mt, mt.count(',') + 1))
    lines, nms = [], []
    for toks, n in cases:
        names = decl.Names()
        lines.append([89, n] + decl.enc_tokens(toks, names))
        nms.append(names)
    outs = run_driver(lines)
    for (toks, n), o, names in zip(cases, outs, nms):
        corr.cases += 1
        if o[0] == 0:
            rest, k = o[1], o[2]
            fl = [bool(x) for x in o[3:12]]
            i = 12
            items = []
            for _ in range(k):
                ln = o[i + 1]
                t, _j = decl.dec_type(o, i + 2, names)
                items.append((names.rev.get(o[i], '?'), t))
                i += 2 + ln
            m = ('ok', (fl[2], fl[3], fl[4], fl[5]), items, rest)
        else:
            m = ('err', o[1])
        r = real_stmt(' '.join(toks))
        key = "stmt:" + (m[0] if m[0] == 'ok' else 'err%d' % m[1]) + "/" + r[0]
        corr.dist[key] = corr.dist.get(key, 0) + 1
        msg = None
        if m[0] == 'ok' and m[3] == 0:
            if r[0] == 'err':
                msg = "model decodes the statement but the implementation rejects it"
            elif r[0] == 'ok' and (r[1], r[2]) != (m[1], m[2]):
                msg = "model %s %s; implementation %s %s" % (m[1], m[2], r[1], r[2])
        elif m[0] == 'err' and m[1] in (1, 2, 3) and r[0] == 'ok':
            msg = "model rejects (code %d) but the implementation reports %s" % (m[1], r[2])
        if msg:
            corr.disagreements.append(dict(case=dict(kind='corr-stmt', tokens=toks, n=n), model=str(m)[:300], impl=str(r)[:300],
                                           what="variable statement `%s`: %s" % (' '.join(toks), msg)))


TAIL_SPECS = [[], [], ['noexcept'], ['noexcept', '(', 'true', ')'], ['noexcept', '(', 'noexcept', '(', 'g', '(', ')', ')', ')'], ['throw', '(', ')'],
              ['throw', '(', 'Foo', ',', 'Bar', ')'], ['noexcept', '(', 'sizeof', '(', 'T', ')', '>', '1', ')']]
BODIES = [['{', '}'], ['{', 'return', '0', ';', '}'], ['{', 'if', '(', 'a', '[', '0', ']', ')', '{', 'f', '(', ')', ';', '}', '}'],
          ['{', 'x', '=', '{', '1', ',', '(', '2', ')', '}', ';', '}'], ['{', '[', '(', ']', ')', '}']]


def real_fn_stmt(text):
    try:
        d = parse_string(text)
    except (impl.CxxParseError, AssertionError, RecursionError):
        return ('err',)
    ns = d.namespace
    if len(ns.functions) != 1 or ns.variables or ns.typedefs or ns.classes or ns.using_alias or ns.enums or ns.forward_decls or ns.method_impls:
        return ('other',)
    f = ns.functions[0]
    if (f.constexpr or f.extern or f.static or f.inline or f.has_trailing_return or f.template or f.msvc_convention or f.operator
            or f.raw_requires or len(f.name.segments) != 1):
        return ('other',)
    try:
        ps = []
        for p in f.parameters:
            if p.default is not None or p.param_pack:
                return ('other',)
            ps.append((decl.from_real(p.type), p.name))
        t = ('F', decl.from_real(f.return_type), tuple(ps), f.vararg)
    except decl.Unrepresentable:
        return ('other',)
    val = lambda v: None if v is None else tuple(x.value for x in v.tokens)
    return ('ok', f.name.segments[0].name, t, val(f.throw), val(f.noexcept), f.has_body, f.deleted)


def correspond_fn_stmts(ctx, corr):
    rng = ctx.rng
    cases = []
    for _ in range(ctx.scale(700, 14000)):
        toks, t = gen_fn_stmt(rng)
        head = toks[:-1]
        spec = list(rng.choice(TAIL_SPECS))
        r = rng.random()
        end = [';'] if r < 0.5 else (list(rng.choice(BODIES)) if r < 0.8 else ['=', 'delete', ';'])
        stmt = head + spec + end
        cases.append(stmt)
        if rng.random() < 0.3:
            cases.append(c02.mutate(rng, stmt))
    lines, nms = [], []
    for toks in cases:
        names = decl.Names()
        lines.append([90] + decl.enc_tokens(toks, names))
        nms.append(names)
    outs = run_driver(lines)
    for toks, o, names in zip(cases, outs, nms):
        corr.cases += 1
        if o[0] == 0:
            ln = o[3]
            t, _ = decl.dec_type(o, 4, names)
            i = 4 + ln

            def opt(i):
                if o[i] == 0:
                    return None, i + 1
                n = o[i + 1]
                vals = tuple(names.rev[o[i + 2 + 2 * j + 1]] if o[i + 2 + 2 * j + 1] else impl.TT[o[i + 2 + 2 * j]] for j in range(n))
                return vals, i + 2 + 2 * n
            th, i = opt(i)
            ne, i = opt(i)
            m = ('ok', names.rev.get(o[1], '?'), t, th, ne, bool(o[i]), bool(o[i + 1]), o[2])
        else:
            m = ('err', o[1])
        r = real_fn_stmt(' '.join(toks))
        key = "fnstmt:" + (m[0] if m[0] == 'ok' else 'err%d' % m[1]) + "/" + r[0]
        corr.dist[key] = corr.dist.get(key, 0) + 1
        msg = None
        if m[0] == 'ok' and m[7] == 0:
            if r[0] == 'err':
                msg = "model decodes the function statement but the implementation rejects it"
            elif r[0] == 'ok' and tuple(r) != tuple(m[:7]):
                msg = "model %s; implementation %s" % (m[:7], r)
        elif m[0] == 'err' and m[1] in (1, 2, 3) and r[0] == 'ok':
            msg = "model rejects (code %d) but the implementation reports %s" % (m[1], r)
        if msg:
            corr.disagreements.append(dict(case=dict(kind='corr-fnstmt', tokens=toks), model=str(m)[:300], impl=str(r)[:300],
                                           what="function statement `%s`: %s" % (' '.join(toks), msg)))


INITS = [None, None, ['=', '1'], ['=', 'a', '+', 'f', '(', '1', ',', '2', ')'], ['=', '{', '1', ',', '2', '}'], ['{', '1', '}'], ['{', '}'],
         ['=', 'x', '[', '1', ',', '2', ']'], ['{', 'a', ',', '{', 'b', ',', 'c', '}', '}'], ['=', 'nullptr'], ['=', '(', 'a', ',', 'b', ')'], ['=']]


def real_stmt_i(text):
    try:
        d = parse_string(text)
    except (impl.CxxParseError, AssertionError, RecursionError):
        return ('err',)
    ns = d.namespace
    if ns.functions or ns.typedefs or ns.classes or ns.using_alias or ns.enums or ns.forward_decls or not ns.variables:
        return ('other',)
    out = []
    flags = None
    for v in ns.variables:
        if v.template or len(v.name.segments) != 1:
            return ('other',)
        f = (v.constexpr, v.extern, v.inline, v.static)
        if flags is not None and f != flags:
            return ('other',)
        flags = f
        try:
            out.append((v.name.segments[0].name, decl.from_real(v.type), None if v.value is None else tuple(t.value for t in v.value.tokens)))
        except decl.Unrepresentable:
            return ('other',)
    return ('ok', flags, out)


def correspond_stmts_i(ctx, corr):
    """variable statements with specifiers AND initialisers: var_stmt_i vs parse_string"""
    rng = ctx.rng
    cases = []
    for _ in range(ctx.scale(800, 16000)):
        base = ('B', rng.choice(['Foo', 'Bar', 'T']), False, False)
        pre = [rng.choice(['constexpr', 'extern', 'inline', 'static', 'const', 'volatile']) for _ in range(rng.choice([0, 0, 1, 2]))]
        toks = pre + [base[1]]
        n = rng.choice([1, 2, 2, 3])
        for i in range(n):
            while True:
                t = rebase(decl.rand_type(rng, rng.choice([0, 1, 2, 4])), base)
                if decl.legal(t) and decl.var_ok(t):
                    break
            if i:
                toks.append(',')
            toks += decl.print_layers(decl.layers(t)[1], ['v%d' % i])
            init = rng.choice(INITS)
            if init:
                toks += init
        toks.append(';')
        cases.append((toks, n))
        if rng.random() < 0.3:
            mt = c02.mutate(rng, toks[:-1]) + [';']
            cases.append((mt, mt.count(',') + 1))
    lines, nms = [], []
    for toks, n in cases:
        names = decl.Names()
        lines.append([91, n] + decl.enc_tokens(toks, names))
        nms.append(names)
    outs = run_driver(lines)
    for (toks, n), o, names in zip(cases, outs, nms):
        corr.cases += 1
        if o[0] == 0:
            rest, k = o[1], o[2]
            fl = [bool(x) for x in o[3:12]]
            i = 12
            items = []
            for _ in range(k):
                ln = o[i + 1]
                t, _j = decl.dec_type(o, i + 2, names)
                j = i + 2 + ln
                if o[j] == 0:
                    val, j = None, j + 1
                else:
                    cnt = o[j + 1]
                    val = tuple(names.rev[o[j + 2 + 2 * q + 1]] if o[j + 2 + 2 * q + 1] else impl.TT[o[j + 2 + 2 * q]] for q in range(cnt))
                    j = j + 2 + 2 * cnt
                items.append((names.rev.get(o[i], '?'), t, val))
                i = j
            m = ('ok', (fl[2], fl[3], fl[4], fl[5]), items, rest)
        else:
            m = ('err', o[1])
        r = real_stmt_i(' '.join(toks))
        key = "stmt_i:" + (m[0] if m[0] == 'ok' else 'err%d' % m[1]) + "/" + r[0]
        corr.dist[key] = corr.dist.get(key, 0) + 1
        msg = None
        if m[0] == 'ok' and m[3] == 0:
            if r[0] == 'err':
                msg = "model decodes the statement but the implementation rejects it"
            elif r[0] == 'ok' and (r[1], r[2]) != (m[1], m[2]):
                msg = "model %s %s; implementation %s %s" % (m[1], m[2], r[1], r[2])
        elif m[0] == 'err' and m[1] in (1, 2, 3) and r[0] == 'ok':
            msg = "model rejects (code %d) but the implementation reports %s" % (m[1], r[2])
        if msg:
            corr.disagreements.append(dict(case=dict(kind='corr-stmt-i', tokens=toks, n=n), model=str(m)[:300], impl=str(r)[:300],
                                           what="variable statement `%s`: %s" % (' '.join(toks), msg)))


def correspond_typedefs(ctx, corr):
    """typedef statements: extracted typedef_stmt vs the typedefs of parse_string"""
    from harness import members
    rng = ctx.rng
    cases = []
    for _ in range(ctx.scale(500, 10000)):
        base = rng.choice(['Foo', 'Bar', 'T'])
        pre = [rng.choice(['const', 'volatile', 'const', 'static', 'inline', 'mutable']) for _ in range(rng.choice([0, 0, 1, 2]))]
        toks = pre + [base]
        n = rng.choice([1, 2, 3])
        for i in range(n):
            while True:
                t = rebase(decl.rand_type(rng, rng.choice([0, 1, 2, 4])), ('B', base, False, False))
                if decl.legal(t) and decl.var_ok(t):
                    break
            if i:
                toks.append(',')
            toks += decl.print_layers(decl.layers(t)[1], ['t%d' % i])
            if rng.random() < 0.08:
                toks += rng.choice([['=', '1'], [':', '3'], ['{', '}']])
        toks.append(';')
        cases.append((toks, n))
        if rng.random() < 0.3:
            mt = c02.mutate(rng, toks[:-1]) + [';']
            cases.append((mt, mt.count(',') + 1))
    ms = members.run_members(93, cases)
    for (toks, n), m in zip(cases, ms):
        corr.cases += 1
        r = real_typedefs('typedef ' + ' '.join(toks))
        key = "typedef:" + (m[0] if m[0] == 'ok' else 'err%d' % m[1]) + "/" + r[0]
        corr.dist[key] = corr.dist.get(key, 0) + 1
        msg = None
        if m[0] == 'ok' and m[3] == 0:
            mm = [(nm, t) for nm, t, bits, val in m[2]]
            if r[0] == 'err':
                msg = "model decodes the typedef statement but the implementation rejects it"
            elif r[0] == 'ok' and r[1] != mm:
                msg = "model %s; implementation %s" % (mm, r[1])
        elif m[0] == 'err' and m[1] in (1, 2, 3) and r[0] == 'ok':
            msg = "model rejects (code %d) but the implementation reports %s" % (m[1], r[1])
        if msg:
            corr.disagreements.append(dict(case=dict(kind='corr-typedef', tokens=toks, n=n), model=str(m)[:300], impl=str(r)[:300],
                                           what="typedef statement `%s`: %s" % (' '.join(toks), msg)))


TP_DEFAULTS = [['int'], ['std', '::', 'vector', '<', 'int', '>'], ['void'], ['3'], ['(', 'a', '>', 'b', ')'], ['f', '(', '1', ',', '2', ')'],
               ['X', '<', 'Y', '<', 'int', '>', ',', '2', '>']]


def gen_tparams(rng, depth=0):
    """(tokens incl. '<' '>', expected list) of a template parameter list"""
    toks, exp = ['<'], []
    n = rng.choice([0, 1, 1, 2, 3])
    for i in range(n):
        if i:
            toks.append(',')
        r = rng.random()
        if r < 0.55:
            inner = None
            if depth < 2 and rng.random() < 0.2:
                itoks, inner = gen_tparams(rng, depth + 1)
                toks += ['template'] + itoks
            key = rng.choice(['class', 'typename'])
            pack = rng.random() < 0.2
            name = rng.choice([None, 'T%d' % i])
            default = None
            if not pack and rng.random() < 0.3:
                default = list(rng.choice(TP_DEFAULTS))
            toks += [key] + (['...'] if pack else []) + ([name] if name else []) + (['='] + default if default else [])
            exp.append(('type', key, pack, name, tuple(default) if default else None, inner))
        else:
            while True:
                t = decl.rand_type(rng, rng.choice([0, 0, 1, 2]))
                if decl.var_ok(t) and t[0] != 'F':
                    break
            name = rng.choice([None, 'N%d' % i])
            toks += decl.print_decl(t, name)
            exp.append(('nontype', t, name))
    toks.append('>')
    return toks, exp


def real_tparams(toks):
    try:
        d = parse_string('template ' + ' '.join(toks) + ' struct S_ ;')
    except (impl.CxxParseError, AssertionError, RecursionError):
        return ('err',)
    ns = d.namespace
    if len(ns.forward_decls) != 1 or ns.forward_decls[0].template is None or isinstance(ns.forward_decls[0].template, list):
        return ('other',)

    def conv(td):
        out = []
        for p in td.params:
            if isinstance(p, T.TemplateTypeParam):
                out.append(('type', p.typekey, p.param_pack, p.name, None if p.default is None else tuple(t.value for t in p.default.tokens),
                            None if p.template is None else conv(p.template)))
            else:
                if p.default is not None or p.param_pack:
                    raise decl.Unrepresentable("non-type extras")
                out.append(('nontype', decl.from_real(p.type), p.name))
        return out
    try:
        return ('ok', conv(ns.forward_decls[0].template))
    except decl.Unrepresentable:
        return ('other',)


def dec_tparams(o, i, k, names):
    out = []
    for _ in range(k):
        if o[i] == 1:
            key, pack, nm = impl.TT[o[i + 1]], bool(o[i + 2]), (None if o[i + 3] == 0 else names.rev[o[i + 3] - 1])
            j = i + 4
            if o[j] == 0:
                default, j = None, j + 1
            else:
                cnt = o[j + 1]
                default = tuple(names.rev[o[j + 2 + 2 * q + 1]] if o[j + 2 + 2 * q + 1] else impl.TT[o[j + 2 + 2 * q]] for q in range(cnt))
                j = j + 2 + 2 * cnt
            if o[j] == 0:
                inner, j = None, j + 1
            else:
                inner, j = dec_tparams(o, j + 2, o[j + 1], names)
            out.append(('type', key, pack, nm, default, inner))
            i = j
        else:
            nm = None if o[i + 1] == 0 else names.rev[o[i + 1] - 1]
            ln = o[i + 2]
            t, _ = decl.dec_type(o, i + 3, names)
            out.append(('nontype', t, nm))
            i = i + 3 + ln
    return out, i


def correspond_tparams(ctx, corr):
    """template parameter lists: extracted tdecl vs the template header the implementation reports"""
    rng = ctx.rng
    cases = []
    for _ in range(ctx.scale(700, 14000)):
        toks, exp = gen_tparams(rng)
        cases.append((toks, exp))
        if rng.random() < 0.35:
            mt = c02.mutate(rng, toks[1:-1])
            cases.append((['<'] + mt + ['>'], None))
    lines, nms = [], []
    for toks, _ in cases:
        names = decl.Names()
        lines.append([96] + decl.enc_tokens(toks + ['struct', 'S_', ';'], names))
        nms.append(names)
    outs = run_driver(lines)
    for (toks, exp), o, names in zip(cases, outs, nms):
        corr.cases += 1
        if o[0] == 0:
            lst, _ = dec_tparams(o, 3, o[2], names)
            m = ('ok', lst, o[1])
        else:
            m = ('err', o[1])
        r = real_tparams(toks)
        key = "tparams:" + (m[0] if m[0] == 'ok' else 'err%d' % m[1]) + "/" + r[0]
        corr.dist[key] = corr.dist.get(key, 0) + 1
        msg = None
        if m[0] == 'ok' and m[2] == 3:
            if r[0] == 'err':
                msg = "model decodes the parameter list but the implementation rejects it"
            elif r[0] == 'ok' and r[1] != m[1]:
                msg = "model %s; implementation %s" % (m[1], r[1])
        elif m[0] == 'err' and m[1] in (1, 2, 3) and r[0] == 'ok':
            msg = "model rejects (code %d) but the implementation reports %s" % (m[1], r[1])
        if msg is None and exp is not None and (m[0] != 'ok' or m[1] != exp):
            msg = "model does not decode the printed parameter list (got %s)" % (m,)
        if msg:
            corr.disagreements.append(dict(case=dict(kind='corr-tparams', tokens=toks), model=str(m)[:300], impl=str(r)[:300],
                                           what="template parameters `%s`: %s" % (' '.join(toks), msg)))


# ---------------------------------------------------------------------------
# template statements: extracted template_stmt (Parse/TemplateStmt.v) vs the real _parse_template with its continuations recorded

def _conv_tdecl(td):
    out = []
    for p in td.params:
        if isinstance(p, T.TemplateTypeParam):
            out.append(('type', p.typekey, p.param_pack, p.name, None if p.default is None else tuple(t.value for t in p.default.tokens),
                        None if p.template is None else _conv_tdecl(p.template)))
        else:
            if p.default is not None or p.param_pack:
                raise decl.Unrepresentable("non-type extras")
            out.append(('nontype', decl.from_real(p.type), p.name))
    return out


def real_template_stmt(strs):
    toks = [impl.mk_tok(decl.tok_type(s), s) for s in strs]
    p = impl.parser_over(toks)
    got = []

    class Stop(Exception):
        pass

    def rec(kind, tmpl_pos):
        def f(*a, **k):
            tm = a[tmpl_pos] if tmpl_pos is not None and len(a) > tmpl_pos else k.get('template')
            extra = 0
            if kind in ('using', 'friend', 'concept', 'decl'):
                extra = 0
            got.append((kind, tm, len(p.lex.tokbuf)))
            raise Stop()
        return f
    p._parse_template_instantiation = rec('inst', None)
    p._parse_using = rec('using', 2)
    p._parse_friend_decl = rec('friend', 2)
    p._parse_concept = rec('concept', 2)
    p._parse_declarations = rec('decl', 2)
    hdr = []

    def fake_requires(tok):
        got.append(('requires', None, len(p.lex.tokbuf)))
        raise Stop()
    p._parse_requires = fake_requires
    real_tdecl = p._parse_template_decl
    seen = []

    def spy_tdecl():
        t = real_tdecl()
        seen.append(t)
        return t
    p._parse_template_decl = spy_tdecl
    try:
        p._parse_template(impl.mk_tok('template', 'template'), None)
        return ('other',)
    except Stop:
        pass
    except (impl.CxxParseError, EOFError):
        return ('err',)
    except (AssertionError, IndexError, KeyError, AttributeError, TypeError, RecursionError):
        return ('other',)
    kind, tm, rest = got[0]
    try:
        if kind == 'inst':
            hs = []
        elif kind == 'requires':
            hs = [_conv_tdecl(seen[-1])] if seen else None      # nested headers of template template parameters return first
        elif isinstance(tm, list):
            hs = [_conv_tdecl(t) for t in tm]
        elif tm is None:
            return ('other',)
        else:
            hs = [_conv_tdecl(tm)]
    except decl.Unrepresentable:
        return ('other',)
    if hs is None:
        return ('other',)
    return ('ok', kind, hs, rest)


TSTMT_OUTSIDE = {'template', 'typename', 'struct', 'class', 'union', 'enum', 'decltype', 'operator', 'final'}
TS_KINDS = {0: 'inst', 1: 'using', 2: 'friend', 3: 'concept', 4: 'requires', 5: 'decl'}


def model_template_stmt(cases):
    lines, nms = [], []
    for toks in cases:
        names = decl.Names()
        lines.append([104] + decl.enc_tokens(toks, names))
        nms.append(names)
    res = []
    for o, names in zip(run_driver(lines), nms):
        if o[0] != 0:
            res.append(('err', o[1]))
            continue
        rest, kind, n = o[1], TS_KINDS[o[2]], o[3]
        i = 4
        hs = []
        for _ in range(n):
            k = o[i]
            lst, i = dec_tparams(o, i + 1, k, names)
            hs.append(lst)
        res.append(('ok', kind, hs, rest))
    return res


def tstmt_msg(m, r):
    if r[0] == 'other' or m == ('err', 4):
        return None
    if m[0] == 'err' and m[1] == 9:
        return "model ran out of budget"
    if (m[0] == 'ok') != (r[0] == 'ok'):
        return "model %s, implementation %s" % (m[:2], r[:2])
    if m[0] == 'ok' and m != r:
        return "model %s, implementation %s" % (m, r)
    return None


def correspond_template_stmts(ctx, corr):
    rng = ctx.rng
    cases = []
    for _ in range(ctx.scale(500, 10000)):
        n = rng.choice([0, 1, 1, 1, 2, 3])
        toks, hs = [], []
        for i in range(n):
            t1, e1 = gen_tparams(rng)
            toks += (['template'] if i else []) + t1
            hs.append(e1)
        first = rng.choice(['using', 'friend', 'concept', 'requires', 'struct', 'class', 'void', 'int', 'Foo', 'static', 'constexpr', 'typename', 'extern'])
        if n == 0:
            first = rng.choice(['class', 'struct', 'Foo', 'int'])
        toks += [first] + rng.choice([['X', ';'], ['x', '(', ')', ';'], ['A', '=', 'int', ';']])
        exp = ('inst', []) if n == 0 else (('decl' if n > 1 or first not in ('using', 'friend', 'concept', 'requires') else first), hs)
        cases.append((toks, exp, 'tstmt-valid'))
        if rng.random() < 0.4 and n:
            mt = c02.mutate(rng, toks) or ['<']
            # (non-type parameters of fundamental or qualified type are outside the template-parameter model)
            mt = [t for t in mt if t not in ('int', 'unsigned', 'long', 'char', 'double', 'float', 'short', 'bool', '::', 'auto', 'signed')] or ['<']
            cases.append((mt, None, 'tstmt-mutated'))
    ms = model_template_stmt([c[0] for c in cases])
    for (toks, exp, kind), m in zip(cases, ms):
        corr.cases += 1
        r = real_template_stmt(toks)
        k = kind + ":" + (m[1] if m[0] == 'ok' else 'err%d' % m[1]) + "/" + (r[1] if r[0] == 'ok' else r[0])
        corr.dist[k] = corr.dist.get(k, 0) + 1
        msg = tstmt_msg(m, r)
        if msg and kind == 'tstmt-mutated' and m == ('err', 1) and r[0] == 'ok' and any(t in TSTMT_OUTSIDE for t in toks[1:]):
            # a mutation put a keyword that may start a qualified name (template, typename, a class key, ...) where a non-type
            # parameter's type is read: the implementation takes it as part of the type name, the declarator model's base
            # types are plain names only (such inputs are outside the model, but Parse/Template.v reports code 1 for them)
            msg = None
        if msg is None and exp is not None and (m[0] != 'ok' or (m[1], m[2]) != exp):
            msg = "model does not decode the printed template statement: %s" % (m,)
        if msg:
            corr.disagreements.append(dict(case=dict(kind='corr-tstmt', tokens=toks), model=str(m)[:300], impl=str(r)[:300],
                                           what="template %s: %s" % (' '.join(toks), msg)))


# ---------------------------------------------------------------------------
# concept definitions: extracted concept_stmt (Parse/TemplateStmt.v) vs the real _parse_concept

def real_concept(strs, in_class):
    from cxxheaderparser import parserstate as PS
    toks = [impl.mk_tok(decl.tok_type(s), s) for s in strs]
    p = impl.parser_over(toks)
    got = []

    class Rec(impl.NullVisitor):
        def on_concept(self, state, c):
            got.append(c)
    p.visitor = Rec()
    if in_class:
        cd = T.ClassDecl(T.PQName([T.NameSpecifier('S')], classkey='struct'))
        p.state = PS.ClassBlockState(p.state, impl.L.Location("<list>", 1), cd, 'public', False, PS.ParsedTypeModifiers({}, {}, {}))
    tmpl = T.TemplateDecl([T.TemplateTypeParam('typename', 'T')])
    try:
        p._parse_concept(impl.mk_tok('concept', 'concept'), None, tmpl)
    except (impl.CxxParseError, EOFError):
        return ('err',)
    except (AssertionError, IndexError, KeyError, AttributeError, TypeError):
        return ('other',)
    if len(got) != 1 or got[0].template is not tmpl:
        return ('other',)
    return ('ok', got[0].name, tuple(t.value for t in got[0].raw_constraint.tokens), len(p.lex.tokbuf))


def model_concepts(cases):
    lines, nms = [], []
    for toks, ic in cases:
        names = decl.Names()
        lines.append([105, int(ic)] + decl.enc_tokens(toks, names))
        nms.append(names)
    res = []
    for o, names in zip(run_driver(lines), nms):
        if o[0] != 0:
            res.append(('err', o[1]))
        else:
            n = o[3]
            res.append(('ok', names.rev.get(o[2], '?'), tuple(names.rev[o[4 + 2 * j + 1]] if o[4 + 2 * j + 1] else impl.TT[o[4 + 2 * j]] for j in range(n)), o[1]))
    return res


CONCEPT_VALUES = [['true'], ['sizeof', '(', 'T', ')', '>', '1'], ['requires', '(', 'T', 't', ')', '{', 't', '.', 'x', ';', '}'], ['A', '<', 'T', '>', '&&', 'B', '<', 'T', ',', 'int', '>'],
                  ['std', '::', 'is_same_v', '<', 'T', ',', 'U', '>'], ['(', 'a', ',', 'b', ')'], ['!', 'C', '<', 'T', '>']]


def correspond_concepts(ctx, corr):
    rng = ctx.rng
    cases = []
    for _ in range(ctx.scale(300, 6000)):
        v = rng.choice(CONCEPT_VALUES)
        nm_ = rng.choice(['C', 'Small', 'K2'])
        toks = [nm_, '='] + v + [';'] + rng.choice([[], ['int', 'x', ';']])
        ic = rng.random() < 0.2
        cases.append((toks, ic, None if ic else (nm_, tuple(v)), 'concept-valid'))
        if rng.random() < 0.5:
            mt = c02.mutate(rng, toks) or [';']
            cases.append((mt, rng.random() < 0.2, None, 'concept-mutated'))
    ms = model_concepts([(c[0], c[1]) for c in cases])
    for (toks, ic, exp, kind), m in zip(cases, ms):
        corr.cases += 1
        r = real_concept(toks, ic)
        k = kind + ":" + (m[0] if m[0] == 'ok' else 'err%d' % m[1]) + "/" + r[0]
        corr.dist[k] = corr.dist.get(k, 0) + 1
        msg = None
        if r[0] != 'other':
            if (m[0] == 'ok') != (r[0] == 'ok'):
                msg = "model %s, implementation %s" % (m[:2], r[:2])
            elif m[0] == 'ok' and m != r:
                msg = "model %s, implementation %s" % (m, r)
        if msg is None and exp is not None and (m[0] != 'ok' or m[1:3] != exp):
            msg = "model does not decode the printed concept: %s" % (m,)
        if msg:
            corr.disagreements.append(dict(case=dict(kind='corr-concept', tokens=toks, in_class=ic), model=str(m)[:300], impl=str(r)[:300],
                                           what="concept %s: %s" % (' '.join(toks), msg)))


# ---------------------------------------------------------------------------
# using statements: extracted using_stmt (Parse/Using.v) vs the real _parse_using on the same token lists

class _UsingRec(impl.NullVisitor):
    def __init__(self):
        self.got = []

    def on_using_namespace(self, state, names):
        self.got.append(('dir', tuple(names)))

    def on_using_declaration(self, state, u):
        self.got.append(('decl', u))

    def on_using_alias(self, state, u):
        self.got.append(('alias', u))


def real_using(strs, in_class, has_template):
    from cxxheaderparser import parserstate as PS
    toks = [impl.mk_tok(decl.tok_type(s), s) for s in strs]
    p = impl.parser_over(toks)
    rec = _UsingRec()
    p.visitor = rec
    if in_class:
        cd = T.ClassDecl(T.PQName([T.NameSpecifier('S')], classkey='struct'))
        p.state = PS.ClassBlockState(p.state, impl.L.Location("<list>", 1), cd, 'public', False, PS.ParsedTypeModifiers({}, {}, {}))
    tmpl = T.TemplateDecl([T.TemplateTypeParam('typename', 'T')]) if has_template else None
    try:
        p._parse_using(impl.mk_tok('using', 'using'), None, tmpl)
    except (impl.CxxParseError, EOFError):
        return ('err',)
    except (AssertionError, IndexError, KeyError, AttributeError, TypeError):
        return ('other',)
    if len(rec.got) != 1:
        return ('other',)
    kind, u = rec.got[0]
    rest = len(p.lex.tokbuf)
    if kind == 'dir':
        root = bool(u) and u[0] == ''
        return ('ok', rest, 'dir', root, tuple(u[1:] if root else u))
    if kind == 'decl':
        q = u.typename
        segs = []
        for sg in q.segments:
            if isinstance(sg, T.FundamentalSpecifier):
                segs.append(('fund', tuple(sg.name.split())))
            elif isinstance(sg, T.NameSpecifier) and sg.specialization is None:
                segs.append(('root',) if sg.name == '' else ('name', sg.name))
            else:
                return ('other',)
        return ('ok', rest, 'decl', q.has_typename, tuple((q.classkey or '').split()), segs)
    if u.template is not tmpl:
        return ('other',)
    try:
        return ('ok', rest, 'alias', u.alias, decl.from_real(u.type))
    except decl.Unrepresentable:
        return ('other',)


USING_WORDS = ['Foo', 'Bar', 'ns', 'T', '::', '::', 'namespace', 'typename', 'enum', '=', ';', ';', 'int', 'unsigned', 'const', '*', '&', '[', ']', '3',
               '(', ')', 'struct', 'class', 'operator', 'template', '<', ',', 'x']


def gen_using(rng):
    """(tokens after `using`, in_class, has_template, expected or None)"""
    r = rng.random()
    in_class = rng.random() < 0.3
    has_template = rng.random() < 0.15
    names = [rng.choice(['Foo', 'Bar', 'ns', 'T', 'a']) for _ in range(rng.choice([1, 1, 2, 3]))]
    qual = []
    for i, n in enumerate(names):
        if i:
            qual.append('::')
        qual.append(n)
    root = rng.random() < 0.3
    if r < 0.25:
        toks = ['namespace'] + (['::'] if root else []) + qual + [';']
        exp = None if (in_class or has_template) else ('dir', root, tuple(names))
    elif r < 0.6:
        tn = rng.random() < 0.3
        toks = (['typename'] if tn else []) + (['::'] if root else []) + qual + [';']
        if rng.random() < 0.15:
            toks = ['enum'] + (['::'] if root else []) + qual + [';']
            exp = None if has_template else ('decl', False, ('enum',), ([('root',)] if root else []) + [('name', n) for n in names])
        else:
            exp = None if has_template else ('decl', False, (), ([('root',)] if root else []) + [('name', n) for n in names])
    else:
        while True:
            t = decl.rand_type(rng, rng.choice([0, 1, 2, 3]))
            if decl.legal(t) and decl.kind(t) != 'F' and not decl.is_void(t):
                break
        name = rng.choice(['A', 'Alias', 'T2'])
        toks = [name, '='] + decl.print_decl(t, None) + [';']
        exp = ('alias', name, t)
    toks = toks + rng.choice([[], ['int'], ['}'], ['x', ';']])
    return toks, in_class, has_template, exp


def model_using(cases):
    lines, nms = [], []
    for toks, ic, ht in cases:
        names = decl.Names()
        lines.append([98, int(ic), int(ht)] + decl.enc_tokens(toks, names))
        nms.append(names)
    res = []
    for o, names in zip(run_driver(lines), nms):
        if o[0] != 0:
            res.append(('err', o[1]))
            continue
        rest, k = o[1], o[2]
        if k == 1:
            n = o[4]
            res.append(('ok', rest, 'dir', bool(o[3]), tuple(names.rev.get(x, '?') for x in o[5:5 + n])))
        elif k == 2:
            kl = o[4]
            key = tuple(impl.TT[x] for x in o[5:5 + kl])
            i = 5 + kl
            cnt = o[i]
            i += 1
            segs = []
            for _ in range(cnt):
                if o[i] == 0:
                    segs.append(('root',)); i += 1
                elif o[i] == 1:
                    segs.append(('name', names.rev.get(o[i + 1], '?'))); i += 2
                else:
                    n = o[i + 1]
                    segs.append(('fund', tuple(impl.TT[x] for x in o[i + 2:i + 2 + n]))); i += 2 + n
            res.append(('ok', rest, 'decl', bool(o[3]), key, segs))
        else:
            res.append(('ok', rest, 'alias', names.rev.get(o[3], '?'), decl.dec_type(o, 4, names)[0]))
    return res


def using_msg(m, r):
    if r[0] == 'other' or m == ('err', 4):
        return None
    if m[0] == 'err' and m[1] == 9:
        return "model ran out of budget"
    if (m[0] == 'ok') != (r[0] == 'ok'):
        return "model %s, implementation %s" % (m[:3], r[:3])
    if m[0] == 'ok' and m != r:
        return "model %s, implementation %s" % (m, r)
    return None


def correspond_using(ctx, corr):
    rng = ctx.rng
    cases = []
    for _ in range(ctx.scale(900, 20000)):
        toks, ic, ht, exp = gen_using(rng)
        cases.append((toks, ic, ht, exp, 'using-valid'))
        if rng.random() < 0.5:
            mt = c02.mutate(rng, toks) or [';']
            if rng.random() < 0.3:
                mt = [rng.choice(USING_WORDS) for _ in range(rng.choice([1, 2, 3, 5]))]
            mt = [t for t in mt if t not in ('...', '&&', 'volatile')] or [';']
            cases.append((mt, ic, ht, None, 'using-mutated'))
    ms = model_using([(c[0], c[1], c[2]) for c in cases])
    for (toks, ic, ht, exp, kind), m in zip(cases, ms):
        corr.cases += 1
        r = real_using(toks, ic, ht)
        k = kind + ":" + (m[0] if m[0] == 'ok' else 'err%d' % m[1]) + "/" + r[0]
        corr.dist[k] = corr.dist.get(k, 0) + 1
        msg = using_msg(m, r)
        if msg is None and exp is not None and (m[0] != 'ok' or m[2:] != exp):
            msg = "model does not decode the printed using statement: %s" % (m,)
        if msg:
            corr.disagreements.append(dict(case=dict(kind='corr-using', tokens=toks, in_class=ic, has_template=ht), model=str(m)[:300], impl=str(r)[:300],
                                           what="using %s (%s%s): %s" % (' '.join(toks), 'class' if ic else 'namespace', ', template' if ht else '', msg)))


# ---------------------------------------------------------------------------
# enum declarations behind the name: extracted enum_decl (Parse/EnumDecl.v) vs the real _parse_enum_decl

class _EnumRec(impl.NullVisitor):
    def __init__(self):
        self.got = []

    def on_forward_decl(self, state, f):
        self.got.append(('fwd', f))

    def on_enum(self, state, e):
        self.got.append(('def', e))

    def on_variable(self, state, v):
        self.got.append(('var', v))

    def on_typedef(self, state, v):
        self.got.append(('var', v))


def _pq_view(q):
    segs = []
    for sg in q.segments:
        if isinstance(sg, T.FundamentalSpecifier):
            segs.append(('fund', tuple(sg.name.split())))
        elif isinstance(sg, T.NameSpecifier) and sg.specialization is None:
            segs.append(('root',) if sg.name == '' else ('name', sg.name))
        else:
            return None
    return (q.has_typename, tuple((q.classkey or '').split()), segs)


def real_enum_decl(strs, is_typedef):
    from cxxheaderparser import parserstate as PS
    toks = [impl.mk_tok(decl.tok_type(s), s) for s in strs]
    if not toks:
        return ('err',)
    p = impl.parser_over(toks[1:])
    rec = _EnumRec()
    p.visitor = rec
    tn = T.PQName([T.NameSpecifier('E')], classkey='enum')
    try:
        p._parse_enum_decl(tn, toks[0], None, is_typedef, impl.L.Location("<list>", 1), PS.ParsedTypeModifiers({}, {}, {}))
    except (impl.CxxParseError, EOFError):
        return ('err',)
    except (AssertionError, IndexError, KeyError, AttributeError, TypeError):
        return ('other',)
    if len(rec.got) != 1:
        return ('other',)
    kind, u = rec.got[0]
    rest = len(p.lex.tokbuf)
    if kind == 'fwd':
        b = _pq_view(u.enum_base)
        return ('other',) if b is None else ('ok', rest, 'fwd', b)
    if kind != 'def':
        return ('other',)
    b = None
    if u.base is not None:
        b = _pq_view(u.base)
        if b is None:
            return ('other',)
    return ('ok', rest, 'def', b, [(v.name, None if v.value is None else tuple(t.value for t in v.value.tokens)) for v in u.values])


def _dec_pq(o, i, names):
    tn = bool(o[i])
    kl = o[i + 1]
    key = tuple(impl.TT[x] for x in o[i + 2:i + 2 + kl])
    i += 2 + kl
    cnt = o[i]
    i += 1
    segs = []
    for _ in range(cnt):
        if o[i] == 0:
            segs.append(('root',)); i += 1
        elif o[i] == 1:
            segs.append(('name', names.rev.get(o[i + 1], '?'))); i += 2
        else:
            n = o[i + 1]
            segs.append(('fund', tuple(impl.TT[x] for x in o[i + 2:i + 2 + n]))); i += 2 + n
    return (tn, key, segs), i


def _dec_enumerators(o, i, names):
    k = o[i]
    i += 1
    items = []
    for _ in range(k):
        name = names.rev.get(o[i], '?')
        if o[i + 1] == 0:
            items.append((name, None))
            i += 2
        else:
            ln = o[i + 2]
            vals = tuple(names.rev[o[i + 3 + 2 * j + 1]] if o[i + 3 + 2 * j + 1] else impl.TT[o[i + 3 + 2 * j]] for j in range(ln))
            items.append((name, vals))
            i += 3 + 2 * ln
    return items, i


def model_enum_decls(cases):
    lines, nms = [], []
    for toks, td in cases:
        names = decl.Names()
        lines.append([99, int(td)] + decl.enc_tokens(toks, names))
        nms.append(names)
    res = []
    for o, names in zip(run_driver(lines), nms):
        if o[0] != 0:
            res.append(('err', o[1]))
        elif o[2] == 1:
            res.append(('ok', o[1], 'fwd', _dec_pq(o, 3, names)[0]))
        else:
            b, i = (None, 4)
            if o[3]:
                b, i = _dec_pq(o, 4, names)
            res.append(('ok', o[1], 'def', b, _dec_enumerators(o, i, names)[0]))
    return res


ENUM_BASES = [['int'], ['unsigned', 'char'], ['long', 'unsigned', 'int'], ['ns', '::', 'Foo'], ['::', 'Bar'], ['T'], ['typename', 'T', '::', 'type'], ['short']]


def gen_enum_decl(rng):
    base = rng.choice([None, None] + ENUM_BASES)
    toks = ([':'] + base) if base else []
    exp_base = None
    if base:
        tn = base[0] == 'typename'
        b = base[1:] if tn else base
        if all(w in ('int', 'unsigned', 'char', 'long', 'short') for w in b):
            segs = [('fund', tuple(b))]
        else:
            segs = [('root',)] if b[0] == '::' else []
            segs += [('name', w) for w in b if w != '::']
        exp_base = (tn, (), segs)
    if base and rng.random() < 0.3:
        return toks + [';'] + rng.choice([[], ['int']]), ('fwd', exp_base)
    items = []
    toks.append('{')
    n = rng.choice([0, 1, 2, 3])
    for i in range(n):
        v = rng.choice([None, None] + ENUM_VALUES)
        items.append(('K%d' % i, None if v is None else tuple(v)))
        if i:
            toks.append(',')
        toks.append('K%d' % i)
        if rng.random() < 0.2:
            toks += ['[['] + rng.choice(ENUM_ATTRS) + [']]']
        if v is not None:
            toks += ['='] + list(v)
    if n and rng.random() < 0.3:
        toks.append(',')
    toks += ['}', ';'] + rng.choice([[], ['int'], ['}']])
    return toks, ('def', exp_base, items)


def enum_decl_msg(m, r):
    if r[0] == 'other' or m == ('err', 4):
        return None
    if m[0] == 'err' and m[1] == 9:
        return "model ran out of budget"
    if (m[0] == 'ok') != (r[0] == 'ok'):
        return "model %s, implementation %s" % (m[:3], r[:3])
    if m[0] == 'ok' and m != r:
        return "model %s, implementation %s" % (m, r)
    return None


def correspond_enum_decls(ctx, corr):
    rng = ctx.rng
    cases = []
    for _ in range(ctx.scale(700, 15000)):
        toks, exp = gen_enum_decl(rng)
        cases.append((toks, False, exp, 'enumdecl-valid'))
        if rng.random() < 0.5:
            mt = c02.mutate(rng, toks) or [';']
            mt = [t for t in mt if t not in ('...', '&&', 'volatile')] or [';']
            cases.append((mt, rng.random() < 0.2, None, 'enumdecl-mutated'))
    ms = model_enum_decls([(c[0], c[1]) for c in cases])
    for (toks, td, exp, kind), m in zip(cases, ms):
        corr.cases += 1
        r = real_enum_decl(toks, td)
        k = kind + ":" + (m[0] if m[0] == 'ok' else 'err%d' % m[1]) + "/" + r[0]
        corr.dist[k] = corr.dist.get(k, 0) + 1
        msg = enum_decl_msg(m, r)
        if msg is None and exp is not None and (m[0] != 'ok' or tuple(m[2:]) != tuple(exp)):
            msg = "model does not decode the printed enum declaration: %s" % (m,)
        if msg:
            corr.disagreements.append(dict(case=dict(kind='corr-enumdecl', tokens=toks, is_typedef=td), model=str(m)[:300], impl=str(r)[:300],
                                           what="enum E %s: %s" % (' '.join(toks), msg)))


# ---------------------------------------------------------------------------
# parameter lists with default values and packs: extracted params_x (Parse/ParamsX.v) vs the real _parse_parameters

def real_params_x(strs):
    toks = [impl.mk_tok(decl.tok_type(s), s) for s in strs]
    p = impl.parser_over(toks)
    try:
        ps, va, at = p._parse_parameters(False)
    except (impl.CxxParseError, EOFError):
        return ('err',)
    except (AssertionError, IndexError, KeyError, AttributeError, TypeError):
        return ('other',)
    out = []
    for q in ps:
        try:
            t = decl.from_real(q.type)
        except decl.Unrepresentable:
            return ('other',)
        out.append((t, q.name, q.param_pack, None if q.default is None else tuple(x.value for x in q.default.tokens)))
    return ('ok', out, va, len(p.lex.tokbuf))


def model_params_x(cases):
    lines, nms = [], []
    for toks in cases:
        names = decl.Names()
        lines.append([103] + decl.enc_tokens(toks, names))
        nms.append(names)
    res = []
    for o, names in zip(run_driver(lines), nms):
        if o[0] != 0:
            res.append(('err', o[1]))
            continue
        rest, va, cnt = o[1], bool(o[2]), o[3]
        i = 4
        out = []
        for _ in range(cnt):
            pack = bool(o[i]); i += 1
            if o[i] == 1:
                name = names.rev.get(o[i + 1], '?'); i += 2
            else:
                name = None; i += 1
            t, i = decl.dec_type(o, i, names)
            if o[i] == 1:
                n = o[i + 1]
                dv = tuple(names.rev[o[i + 2 + 2 * j + 1]] if o[i + 2 + 2 * j + 1] else impl.TT[o[i + 2 + 2 * j]] for j in range(n))
                i += 2 + 2 * n
            else:
                dv = None; i += 1
            out.append((t, name, pack, dv))
        res.append(('ok', out, va, rest))
    return res


PX_DEFAULTS = [['0'], ['nullptr'], ['1', '+', '2'], ['f', '(', '1', ',', '2', ')'], ['{', '}'], ['Foo', '{', '1', ',', '2', '}'], ['(', 'a', '>', 'b', ')'], ['A', '<', 'B', '>', '(', ')'],
               ['sizeof', '(', 'X', ')'], ['x', '[', '3', ']'], ['-', '1'], ['"s"'], ['N', '::', 'k'], ['a', '?', 'b', ':', 'c']]
PX_WORDS = ['Foo', 'Bar', 'T', 'void', 'const', 'volatile', '*', '&', '&&', '(', ')', '[', ']', ',', '...', '=', '3', 'x', 'y', 'final', 'auto', 'int', '<', '>']


def gen_params_x(rng):
    n = rng.choice([0, 1, 1, 2, 3, 4])
    toks, exp = [], []
    for i in range(n):
        if i:
            toks.append(',')
        while True:
            t = decl.rand_type(rng, rng.choice([0, 1, 2, 3]))
            if decl.legal(t) and decl.var_ok(t) and decl.kind(t) != 'F' and not (n == 1 and decl.is_void(t)):
                break
        name = rng.choice([None, 'a%d' % i, 'a%d' % i])
        dv = tuple(rng.choice(PX_DEFAULTS)) if rng.random() < 0.4 else None
        toks += decl.print_decl(t, name) + ((['='] + list(dv)) if dv else [])
        exp.append((t, name, False, dv))
    va = rng.random() < 0.2
    if va:
        toks += ([','] if n else []) + ['...']
    toks += [')'] + rng.choice([[], [';'], ['const', ';'], ['{', '}']])
    return toks, (exp, va)


def params_x_msg(m, r):
    if r[0] == 'other' or m == ('err', 4):
        return None
    if m[0] == 'err' and m[1] == 9:
        return "model ran out of budget"
    if (m[0] == 'ok') != (r[0] == 'ok'):
        return "model %s, implementation %s" % (m[:2], r[:2])
    if m[0] == 'ok' and m != r:
        return "model %s, implementation %s" % (m, r)
    return None


def correspond_params_x(ctx, corr):
    rng = ctx.rng
    cases = []
    for _ in range(ctx.scale(800, 18000)):
        toks, exp = gen_params_x(rng)
        cases.append((toks, exp, 'params-valid'))
        if rng.random() < 0.6:
            mt = c02.mutate(rng, toks) or [')']
            if rng.random() < 0.3:
                mt = [rng.choice(PX_WORDS) for _ in range(rng.choice([1, 2, 3, 5, 8]))]
            cases.append((mt, None, 'params-mutated'))
    ms = model_params_x([c[0] for c in cases])
    for (toks, exp, kind), m in zip(cases, ms):
        corr.cases += 1
        r = real_params_x(toks)
        k = kind + ":" + (m[0] if m[0] == 'ok' else 'err%d' % m[1]) + "/" + r[0]
        corr.dist[k] = corr.dist.get(k, 0) + 1
        msg = params_x_msg(m, r)
        if msg is None and exp is not None and (m[0] != 'ok' or (m[1], m[2]) != exp):
            msg = "model does not decode the printed parameter list: %s" % (m,)
        if msg:
            corr.disagreements.append(dict(case=dict(kind='corr-paramsx', tokens=toks), model=str(m)[:300], impl=str(r)[:300],
                                           what="parameter list `( %s`: %s" % (' '.join(toks), msg)))


# ---------------------------------------------------------------------------
# whole declaration statements mixing variables and function declarators: extracted decl_stmt (Parse/DeclStmt.v) vs
# parse_string with a visitor that records variables and functions in the order they are delivered

class _DeclRec(impl.SimpleCxxVisitor):
    def __init__(self):
        self.order = []

    def on_variable(self, state, v):
        self.order.append(('v', v))
        super().on_variable(state, v)

    def on_function(self, state, f):
        self.order.append(('f', f))
        super().on_function(state, f)


def real_decl_stmt(text):
    v = _DeclRec()
    try:
        impl.P.CxxParser("<str>", text, v, None).parse()
    except (impl.CxxParseError, AssertionError, RecursionError):
        return ('err',)
    ns = v.data.namespace
    if ns.typedefs or ns.classes or ns.using_alias or ns.enums or ns.forward_decls or ns.method_impls or ns.namespaces or ns.using or ns.using_ns:
        return ('other',)
    if len(v.order) != len(ns.variables) + len(ns.functions) or not v.order:
        return ('other',)       # (an input without any declaration -- `;` -- never reaches _parse_declarations)
    val = lambda x: None if x is None else tuple(t.value for t in x.tokens)
    out, flags = [], None
    for kind, o in v.order:
        if o.template or len(o.name.segments) != 1 or not isinstance(o.name.segments[0], T.NameSpecifier) or o.name.segments[0].specialization:
            return ('other',)
        f = (o.constexpr, o.extern, o.inline, o.static)
        if flags is not None and f != flags:
            return ('other',)
        flags = f
        try:
            if kind == 'v':
                out.append(('var', o.name.segments[0].name, decl.from_real(o.type), val(o.value)))
            else:
                if o.has_trailing_return or o.msvc_convention or o.operator or o.raw_requires:
                    return ('other',)
                ps = []
                for q in o.parameters:
                    if q.default is not None or q.param_pack:
                        return ('other',)
                    ps.append((decl.from_real(q.type), q.name))
                out.append(('fn', o.name.segments[0].name, ('F', decl.from_real(o.return_type), tuple(ps), o.vararg),
                            val(o.throw), val(o.noexcept), o.has_body, o.deleted))
        except decl.Unrepresentable:
            return ('other',)
    return ('ok', flags, out)


def gen_mixed_stmt(rng, typedef=False):
    """`spec* T d1, ..., dn <end>`: every d a variable declarator with an optional initialiser or a function declarator with
    an optional exception specification; <end> is ';' or, behind a last function, a body / `= delete ;`"""
    base = ('B', rng.choice(['Foo', 'Bar', 'T', 'int', 'unsigned int', 'double', 'short', 'signed char']), False, False)
    pre = [rng.choice(['const', 'volatile'] if typedef else ['constexpr', 'extern', 'inline', 'static', 'const', 'volatile']) for _ in range(rng.choice([0, 0, 1, 2]))]
    toks = pre + base[1].split()
    if rng.random() < 0.15:
        toks.append(rng.choice(['const', 'volatile'] if typedef else ['const', 'volatile', 'static']))
    n = rng.choice([1, 2, 2, 3, 4])
    last_fn = False
    for i in range(n):
        if i:
            toks.append(',')
        if rng.random() < 0.45:
            while True:
                rt = rebase(decl.rand_type(rng, rng.choice([0, 0, 1, 2, 3])), base)
                if decl.kind(rt) in 'BR' and rt[0] != 'F':
                    ps = []
                    for j in range(rng.choice([0, 1, 1, 2])):
                        while True:
                            q = decl.rand_type(rng, rng.choice([0, 1, 2]))
                            if decl.var_ok(q):
                                break
                        ps.append((q, rng.choice([None, 'a%d' % j])))
                    t = ('F', rt, tuple(ps), rng.random() < 0.15)
                    if decl.legal(t):
                        break
            toks += decl.print_layers(decl.layers(t)[1], ['f%d' % i]) + list(rng.choice(TAIL_SPECS))
            last_fn = True
        else:
            while True:
                t = rebase(decl.rand_type(rng, rng.choice([0, 1, 2, 4])), base)
                if decl.legal(t) and decl.var_ok(t):
                    break
            toks += decl.print_layers(decl.layers(t)[1], ['v%d' % i])
            if rng.random() < 0.1:
                # `int (x)` / `int (x)[2]`: a parenthesis that is not a declarator group is re-injected once
                k = len(toks) - 1
                while toks[k] != 'v%d' % i:
                    k -= 1
                if k == len(toks) - 1 or toks[k + 1] not in ('(',):
                    toks[k:k + 1] = ['(', 'v%d' % i, ')']
            init = None if (typedef and rng.random() < 0.95) else rng.choice(INITS)
            if init:
                toks += init
            last_fn = False
    r = 1.0 if (typedef and rng.random() < 0.95) else rng.random()
    if last_fn and r < 0.3:
        toks += list(rng.choice(BODIES))
    elif last_fn and r < 0.45:
        toks += ['=', 'delete', ';']
    else:
        toks.append(';')
    return toks, n


def correspond_decl_stmts(ctx, corr):
    rng = ctx.rng
    cases = []
    for _ in range(ctx.scale(1200, 24000)):
        toks, n = gen_mixed_stmt(rng)
        cases.append((toks, n))
        if rng.random() < 0.35:
            mt = c02.mutate(rng, toks)
            cases.append((mt, mt.count(',') + 1))
    lines, nms = [], []
    for toks, n in cases:
        names = decl.Names()
        lines.append([106, n] + decl.enc_tokens(toks, names))
        nms.append(names)
    outs = run_driver(lines)
    for (toks, n), o, names in zip(cases, outs, nms):
        corr.cases += 1
        if o[0] == 0:
            rest, k = o[1], o[2]
            fl = [bool(x) for x in o[3:12]]
            i = 12

            def opt(i):
                if o[i] == 0:
                    return None, i + 1
                cnt = o[i + 1]
                vals = tuple(names.rev[o[i + 2 + 2 * q + 1]] if o[i + 2 + 2 * q + 1] else impl.TT[o[i + 2 + 2 * q]] for q in range(cnt))
                return vals, i + 2 + 2 * cnt
            items = []
            for _ in range(k):
                kind, nm, ln = o[i], names.rev.get(o[i + 1], '?'), o[i + 2]
                t, _j = decl.dec_type(o, i + 3, names)
                i = i + 3 + ln
                if kind == 0:
                    val, i = opt(i)
                    items.append(('var', nm, t, val))
                else:
                    th, i = opt(i)
                    ne, i = opt(i)
                    items.append(('fn', nm, t, th, ne, bool(o[i]), bool(o[i + 1])))
                    i += 2
            m = ('ok', (fl[2], fl[3], fl[4], fl[5]), items, rest)
        else:
            m = ('err', o[1])
        r = real_decl_stmt(' '.join(toks))
        key = "declstmt:" + (m[0] if m[0] == 'ok' else 'err%d' % m[1]) + "/" + r[0]
        corr.dist[key] = corr.dist.get(key, 0) + 1
        msg = None
        if m[0] == 'ok' and m[3] == 0:
            if r[0] == 'err':
                msg = "model decodes the statement but the implementation rejects it"
            elif r[0] == 'ok' and (r[1], r[2]) != (m[1], m[2]):
                msg = "model %s %s; implementation %s %s" % (m[1], m[2], r[1], r[2])
        elif m[0] == 'err' and m[1] in (1, 2, 3) and r[0] == 'ok' and not decl.final_as_name(toks):
            msg = "model rejects (code %d) but the implementation reports %s" % (m[1], r[2])
        elif m[0] == 'err' and m[1] == 9:
            msg = "model ran out of fuel"
        if msg:
            corr.disagreements.append(dict(case=dict(kind='corr-declstmt', tokens=toks, n=n), model=str(m)[:400], impl=str(r)[:400],
                                           what="declaration statement `%s`: %s" % (' '.join(toks), msg)))


# typedef statements through the statement model: extracted typedef_decl_stmt vs the typedefs parse_string reports, in order

def real_typedef_stmt(text):
    try:
        d = parse_string('typedef ' + text)
    except (impl.CxxParseError, AssertionError, RecursionError):
        return ('err',)
    ns = d.namespace
    if ns.functions or ns.variables or ns.classes or ns.using_alias or ns.enums or ns.forward_decls or ns.method_impls or not ns.typedefs:
        return ('other',)
    out = []
    try:
        for t in ns.typedefs:
            if isinstance(t.type, T.FunctionType):
                ft = t.type
                if ft.has_trailing_return or ft.msvc_convention:
                    return ('other',)
                ps = []
                for q in ft.parameters:
                    if q.default is not None or q.param_pack:
                        return ('other',)
                    ps.append((decl.from_real(q.type), q.name))
                out.append(('fn', t.name, ('F', decl.from_real(ft.return_type), tuple(ps), ft.vararg),
                            None if ft.noexcept is None else tuple(x.value for x in ft.noexcept.tokens)))
            else:
                out.append(('var', t.name, decl.from_real(t.type)))
    except decl.Unrepresentable:
        return ('other',)
    return ('ok', out)


def correspond_typedef_stmts(ctx, corr):
    rng = ctx.rng
    cases = []
    for _ in range(ctx.scale(700, 14000)):
        toks, n = gen_mixed_stmt(rng, typedef=True)
        cases.append((toks, n))
        if rng.random() < 0.3:
            mt = c02.mutate(rng, toks)
            cases.append((mt, mt.count(',') + 1))
    lines, nms = [], []
    for toks, n in cases:
        names = decl.Names()
        lines.append([109, n] + decl.enc_tokens(toks, names))
        nms.append(names)
    outs = run_driver(lines)
    for (toks, n), o, names in zip(cases, outs, nms):
        corr.cases += 1
        if o[0] == 0:
            rest, k = o[1], o[2]
            i = 3

            def opt(i):
                if o[i] == 0:
                    return None, i + 1
                cnt = o[i + 1]
                vals = tuple(names.rev[o[i + 2 + 2 * q + 1]] if o[i + 2 + 2 * q + 1] else impl.TT[o[i + 2 + 2 * q]] for q in range(cnt))
                return vals, i + 2 + 2 * cnt
            items = []
            for _ in range(k):
                kind, nm, ln = o[i], names.rev.get(o[i + 1], '?'), o[i + 2]
                t, _j = decl.dec_type(o, i + 3, names)
                i = i + 3 + ln
                if kind == 0:
                    val, i = opt(i)
                    items.append(('var', nm, t))
                else:
                    th, i = opt(i)
                    ne, i = opt(i)
                    items.append(('fn', nm, t, ne))
                    i += 2
            m = ('ok', items, rest)
        else:
            m = ('err', o[1])
        r = real_typedef_stmt(' '.join(toks))
        key = "tdstmt:" + (m[0] if m[0] == 'ok' else 'err%d' % m[1]) + "/" + r[0]
        corr.dist[key] = corr.dist.get(key, 0) + 1
        msg = None
        if m[0] == 'ok' and m[2] == 0:
            if r[0] == 'err':
                msg = "model decodes the typedef statement but the implementation rejects it"
            elif r[0] == 'ok' and r[1] != m[1]:
                msg = "model %s; implementation %s" % (m[1], r[1])
        elif m[0] == 'err' and m[1] in (1, 2, 3) and r[0] == 'ok' and not decl.final_as_name(toks):
            msg = "model rejects (code %d) but the implementation reports %s" % (m[1], r[1])
        elif m[0] == 'err' and m[1] == 9:
            msg = "model ran out of fuel"
        if msg:
            corr.disagreements.append(dict(case=dict(kind='corr-tdstmt', tokens=toks, n=n), model=str(m)[:400], impl=str(r)[:400],
                                           what="typedef statement `typedef %s`: %s" % (' '.join(toks), msg)))


# operator functions at namespace scope: extracted op_fn_stmt (Parse/OperatorFn.v) vs parse_string

def real_op_fn(text):
    try:
        d = parse_string(text)
    except (impl.CxxParseError, AssertionError, RecursionError):
        return ('err',)
    ns = d.namespace
    if len(ns.functions) != 1 or ns.variables or ns.typedefs or ns.classes or ns.using_alias or ns.enums or ns.forward_decls or ns.method_impls:
        return ('other',)
    f = ns.functions[0]
    if (not f.operator or f.has_trailing_return or f.template or f.msvc_convention or f.raw_requires or len(f.name.segments) != 1
            or f.name.segments[0].name != 'operator' + f.operator or f.name.segments[0].specialization):
        return ('other',)
    try:
        ps = []
        for p in f.parameters:
            if p.default is not None or p.param_pack:
                return ('other',)
            ps.append((decl.from_real(p.type), p.name))
        t = ('F', decl.from_real(f.return_type), tuple(ps), f.vararg)
    except decl.Unrepresentable:
        return ('other',)
    val = lambda v: None if v is None else tuple(x.value for x in v.tokens)
    return ('ok', (f.constexpr, f.extern, f.inline, f.static), f.operator, t, val(f.throw), val(f.noexcept), f.has_body, f.deleted)


def correspond_op_fns(ctx, corr):
    from harness.props import c03
    rng = ctx.rng
    cases = []
    for _ in range(ctx.scale(700, 14000)):
        pre = [rng.choice(['constexpr', 'inline', 'static', 'extern', 'const']) for _ in range(rng.choice([0, 0, 1, 2]))]
        ty = [rng.choice(['Foo', 'T', 'bool_t', 'Bar', 'void'])]
        for _ in range(rng.choice([0, 0, 1, 2])):
            ty += rng.choice([['*'], ['*', 'const'], ['&'], ['&&']])
        ps = []
        for j in range(rng.choice([1, 1, 2])):
            while True:
                q = decl.rand_type(rng, rng.choice([0, 1, 2]))
                if decl.var_ok(q):
                    break
            ps.append((q, rng.choice([None, 'a%d' % j])))
        toks = pre + ty + ['operator'] + list(rng.choice(c03.OPM_OPS)) + ['('] + decl.print_params(tuple(ps), False) + [')']
        toks += list(rng.choice(TAIL_SPECS))
        r = rng.random()
        toks += [';'] if r < 0.5 else (list(rng.choice(BODIES)) if r < 0.8 else ['=', 'delete', ';'])
        cases.append(toks)
        if rng.random() < 0.3:
            cases.append(c02.mutate(rng, toks) or [';'])
    lines, nms = [], []
    for toks in cases:
        names = decl.Names()
        lines.append([115] + decl.enc_tokens(toks, names))
        nms.append(names)
    for toks, o, names in zip(cases, run_driver(lines), nms):
        corr.cases += 1
        if o[0] == 0:
            fl = [bool(x) for x in o[2:11]]
            nop = o[11]
            op = ''.join(names.rev[o[12 + 2 * j + 1]] if o[12 + 2 * j + 1] else impl.TT[o[12 + 2 * j]] for j in range(nop))
            i = 12 + 2 * nop
            ln = o[i]
            t, _j = decl.dec_type(o, i + 1, names)
            i = i + 1 + ln

            def opt(i):
                if o[i] == 0:
                    return None, i + 1
                cnt = o[i + 1]
                vals = tuple(names.rev[o[i + 2 + 2 * q + 1]] if o[i + 2 + 2 * q + 1] else impl.TT[o[i + 2 + 2 * q]] for q in range(cnt))
                return vals, i + 2 + 2 * cnt
            th, i = opt(i)
            ne, i = opt(i)
            m = ('ok', (fl[2], fl[3], fl[4], fl[5]), op, t, th, ne, bool(o[i]), bool(o[i + 1]), o[1])
        else:
            m = ('err', o[1])
        r = real_op_fn(' '.join(toks))
        k = "opfn:" + (m[0] if m[0] == 'ok' else 'err%d' % m[1]) + "/" + r[0]
        corr.dist[k] = corr.dist.get(k, 0) + 1
        msg = None
        if m[0] == 'ok' and m[8] == 0:
            if r[0] == 'err':
                msg = "model decodes the operator function but the implementation rejects it"
            elif r[0] == 'ok' and tuple(r[1:]) != tuple(m[1:8]):
                msg = "model %s; implementation %s" % (m[1:8], r[1:])
        elif m[0] == 'err' and m[1] in (1, 2, 3) and r[0] == 'ok' and not decl.final_as_name(toks):
            msg = "model rejects (code %d) but the implementation reports %s" % (m[1], r[1:])
        elif m[0] == 'err' and m[1] == 9:
            msg = "model ran out of fuel"
        if msg:
            corr.disagreements.append(dict(case=dict(kind='corr-opfn', tokens=toks), model=str(m)[:400], impl=str(r)[:400],
                                           what="operator function `%s`: %s" % (' '.join(toks), msg)))


# method definitions outside their class: extracted method_impl_stmt (Parse/MethodImpl.v) vs parse_string

def real_method_impl(text):
    try:
        d = parse_string(text)
    except (impl.CxxParseError, AssertionError, RecursionError):
        return ('err',)
    ns = d.namespace
    if len(ns.method_impls) != 1 or ns.functions or ns.variables or ns.typedefs or ns.classes or ns.using_alias or ns.enums or ns.forward_decls:
        return ('other',)
    o = ns.method_impls[0]
    if o.operator or o.has_trailing_return or o.template or o.msvc_convention or o.raw_requires or o.constructor or o.destructor:
        return ('other',)
    segs = []
    for sg in o.name.segments:
        if not isinstance(sg, T.NameSpecifier) or sg.specialization or sg.name == '':
            return ('other',)
        segs.append(sg.name)
    try:
        ps = []
        for p in o.parameters:
            if p.default is not None or p.param_pack:
                return ('other',)
            ps.append((decl.from_real(p.type), p.name))
        t = ('F', decl.from_real(o.return_type), tuple(ps), o.vararg)
    except decl.Unrepresentable:
        return ('other',)
    val = lambda v: None if v is None else tuple(x.value for x in v.tokens)
    return ('ok', (o.constexpr, o.extern, o.inline, o.static), tuple(segs), t,
            (o.const, o.volatile, o.override, o.final, {None: 0, '&': 1, '&&': 2}[o.ref_qualifier], val(o.throw), val(o.noexcept),
             o.pure_virtual, o.deleted, o.default, o.has_body))


def correspond_method_impls(ctx, corr):
    from harness.props import c03
    rng = ctx.rng
    cases = []
    for _ in range(ctx.scale(700, 14000)):
        pre = [rng.choice(['constexpr', 'inline', 'static', 'const']) for _ in range(rng.choice([0, 0, 1, 2]))]
        ty = [rng.choice(['Foo', 'T', 'bool_t', 'Bar', 'void'])]
        for _ in range(rng.choice([0, 0, 1, 2])):
            ty += rng.choice([['*'], ['*', 'const'], ['&'], ['&&']])
        ps = []
        for j in range(rng.choice([0, 1, 1, 2])):
            while True:
                q = decl.rand_type(rng, rng.choice([0, 1, 2]))
                if decl.var_ok(q):
                    break
            ps.append((q, rng.choice([None, 'a%d' % j])))
        segs = [rng.choice(['Cls', 'ns', 'Outer', 'A']) for _ in range(rng.choice([1, 1, 2, 3]))] + [rng.choice(['m', 'get', 'f2'])]
        qual = []
        for i, sname in enumerate(segs):
            if i:
                qual.append('::')
            qual.append(sname)
        toks = pre + ty + qual + ['('] + decl.print_params(tuple(ps), False) + [')']
        for _ in range(rng.choice([0, 1, 1, 2])):
            toks += rng.choice(c03.MS_QUALS)
        toks += list(rng.choice([['{', '}'], ['{', 'return', 'x', '[', '0', ']', ';', '}'], ['{', '}'], [';'], ['=', 'default', ';']]))
        toks += rng.choice([[], ['int', 'z', ';']])
        cases.append(toks)
        if rng.random() < 0.3:
            cases.append(c02.mutate(rng, toks) or [';'])
    lines, nms = [], []
    for toks in cases:
        names = decl.Names()
        lines.append([116] + decl.enc_tokens(toks, names))
        nms.append(names)
    for toks, o, names in zip(cases, run_driver(lines), nms):
        corr.cases += 1
        if o[0] == 0:
            fl = [bool(x) for x in o[2:11]]
            nseg = o[11]
            segs = tuple(names.rev.get(x, '?') for x in o[12:12 + nseg])
            i = 12 + nseg
            ln = o[i]
            t, _j = decl.dec_type(o, i + 1, names)
            i = i + 1 + ln

            def opt(i):
                if o[i] == 0:
                    return None, i + 1
                cnt = o[i + 1]
                vals = tuple(names.rev[o[i + 2 + 2 * q + 1]] if o[i + 2 + 2 * q + 1] else impl.TT[o[i + 2 + 2 * q]] for q in range(cnt))
                return vals, i + 2 + 2 * cnt
            q5 = (bool(o[i]), bool(o[i + 1]), bool(o[i + 2]), bool(o[i + 3]), o[i + 4])
            i += 5
            th, i = opt(i)
            ne, i = opt(i)
            q = q5 + (th, ne, bool(o[i]), bool(o[i + 1]), bool(o[i + 2]), bool(o[i + 3]))
            m = ('ok', (fl[2], fl[3], fl[4], fl[5]), segs, t, q, o[1])
        else:
            m = ('err', o[1])
        # the model stops behind the body; what follows is another statement
        k_rest = m[5] if m[0] == 'ok' else None
        text = ' '.join(toks[:len(toks) - k_rest]) if k_rest else ' '.join(toks)
        r = real_method_impl(text)
        k = "methodimpl:" + (m[0] if m[0] == 'ok' else 'err%d' % m[1]) + "/" + r[0]
        corr.dist[k] = corr.dist.get(k, 0) + 1
        msg = None
        if m[0] == 'ok':
            if r[0] == 'err':
                msg = "model decodes the method definition but the implementation rejects it"
            elif r[0] == 'ok' and tuple(r[1:]) != tuple(m[1:5]):
                msg = "model %s; implementation %s" % (m[1:5], r[1:])
        elif m[0] == 'err' and m[1] in (1, 2, 3) and r[0] == 'ok' and not decl.final_as_name(toks):
            msg = "model rejects (code %d) but the implementation reports %s" % (m[1], r[1:])
        elif m[0] == 'err' and m[1] == 9:
            msg = "model ran out of fuel"
        if msg:
            corr.disagreements.append(dict(case=dict(kind='corr-methodimpl', tokens=toks), model=str(m)[:400], impl=str(r)[:400],
                                           what="method definition `%s`: %s" % (text, msg)))


# explicit instantiations: extracted inst_stmt (Parse/TemplateInst.v) vs the real _parse_template_instantiation

def real_template_inst(strs, extern):
    toks = [impl.mk_tok(decl.tok_type(s), s) for s in strs]
    p = impl.parser_over(toks)
    got = []

    class Rec(impl.NullVisitor):
        def on_template_inst(self, state, inst):
            got.append(inst)
    p.visitor = Rec()
    try:
        p._parse_template_instantiation(None, extern)
    except (impl.CxxParseError, EOFError):
        return ('err',)
    except (AssertionError, IndexError, KeyError, AttributeError, TypeError, ValueError, RecursionError):
        return ('other',)
    if len(got) != 1 or got[0].extern is not extern:
        return ('other',)
    q = got[0].typename
    segs = list(q.segments)
    root = bool(segs) and isinstance(segs[0], T.NameSpecifier) and segs[0].name == '' and segs[0].specialization is None
    if root:
        segs = segs[1:]
    names = []
    for sg in segs[:-1]:
        if not isinstance(sg, T.NameSpecifier) or sg.specialization is not None:
            return ('other',)
        names.append(sg.name)
    last = segs[-1]
    if not isinstance(last, T.NameSpecifier) or last.specialization is None or q.classkey or q.has_typename:
        return ('other',)
    names.append(last.name)
    out = []
    for a in last.specialization.args:
        if isinstance(a.arg, T.Value):
            out.append(('value', tuple(t.value for t in a.arg.tokens), a.param_pack))
        else:
            try:
                out.append(('type', decl.from_real(a.arg), a.param_pack))
            except decl.Unrepresentable:
                return ('other',)
    return ('ok', root, tuple(names), out, len(p.lex.tokbuf))


def correspond_template_insts(ctx, corr):
    rng = ctx.rng
    cases = []
    for _ in range(ctx.scale(600, 12000)):
        names = [rng.choice(['ns', 'A', 'X', 'Vec', 'detail']) for _ in range(rng.choice([1, 1, 2, 3]))]
        toks = [rng.choice(['class', 'struct'])] + (['::'] if rng.random() < 0.15 else [])
        for i, n_ in enumerate(names):
            if i:
                toks.append('::')
            toks.append(n_)
        args, _exp = c02.gen_tspec(rng)
        args = list(args)
        if rng.random() < 0.8:
            for junk in (['x', ';'], ['::', 'type'], ['>', '>']):
                if args[-len(junk):] == junk:
                    args = args[:len(args) - len(junk)] + (['>'] if junk[0] == '>' else [])
        toks += ['<'] + args + [';'] + rng.choice([[], ['int', 'z', ';']])
        cases.append((toks, rng.random() < 0.5))
        if rng.random() < 0.3:
            cases.append((c02.mutate(rng, toks) or [';'], rng.random() < 0.5))
    lines, nms = [], []
    for toks, ext in cases:
        names = decl.Names()
        lines.append([117] + decl.enc_tokens(toks, names))
        nms.append(names)
    for (toks, ext), o, names in zip(cases, run_driver(lines), nms):
        corr.cases += 1
        if o[0] == 0:
            rest, root, nn = o[1], bool(o[2]), o[3]
            nm_ = tuple(names.rev.get(x, '?') for x in o[4:4 + nn])
            i = 4 + nn
            cnt = o[i]
            i += 1
            out = []
            for _ in range(cnt):
                if o[i] == 1:
                    t, j = decl.dec_type(o, i + 2, names)
                    out.append(('type', t, bool(o[i + 1])))
                    i = j
                else:
                    n = o[i + 2]
                    vals = tuple(names.rev[o[i + 3 + 2 * j + 1]] if o[i + 3 + 2 * j + 1] else impl.TT[o[i + 3 + 2 * j]] for j in range(n))
                    out.append(('value', vals, bool(o[i + 1])))
                    i += 3 + 2 * n
            m = ('ok', root, nm_, out, rest)
        else:
            m = ('err', o[1])
        r = real_template_inst(toks, ext)
        k = "tinst:" + (m[0] if m[0] == 'ok' else 'err%d' % m[1]) + "/" + r[0]
        corr.dist[k] = corr.dist.get(k, 0) + 1
        msg = None
        if r[0] != 'other' and not (m[0] == 'err' and m[1] == 4):
            if m[0] == 'err' and m[1] == 9:
                msg = "model ran out of fuel"
            elif (m[0] == 'ok') != (r[0] == 'ok'):
                msg = "model %s, implementation %s" % (m[:3], r[:3])
            elif m[0] == 'ok' and m != r:
                msg = "model %s, implementation %s" % (m, r)
        if msg:
            corr.disagreements.append(dict(case=dict(kind='corr-tinst', tokens=toks, extern=ext), model=str(m)[:400], impl=str(r)[:400],
                                           what="explicit instantiation `%stemplate %s`: %s" % ('extern ' if ext else '', ' '.join(toks), msg)))


def correspond(ctx):
    corr = Corr()
    rng = ctx.rng
    correspond_template_insts(ctx, corr)
    correspond_method_impls(ctx, corr)
    correspond_op_fns(ctx, corr)
    correspond_typedef_stmts(ctx, corr)
    from harness import dispatchcorr
    dispatchcorr.correspond_dispatch(ctx, corr, only=('extern', 'inline', 'typedef'))
    correspond_decl_stmts(ctx, corr)
    correspond_params_x(ctx, corr)
    correspond_template_stmts(ctx, corr)
    correspond_concepts(ctx, corr)
    correspond_using(ctx, corr)
    correspond_enum_decls(ctx, corr)
    correspond_tparams(ctx, corr)
    correspond_typedefs(ctx, corr)
    correspond_stmts_i(ctx, corr)
    correspond_fn_stmts(ctx, corr)
    correspond_stmts(ctx, corr)
    correspond_fns(ctx, corr)
    correspond_enums(ctx, corr)
    correspond_specs(ctx, corr)
    cases, metas = [], []
    for _ in range(ctx.scale(1200, 25000)):
        toks, items = gen_decl_stmt(rng)
        cases.append((toks, len(items)))
        metas.append(('valid', items))
        if rng.random() < 0.6:
            mt = c02.mutate(rng, toks[:-1]) + [';']
            cases.append((mt, mt.count(',') + 1))
            metas.append(('mutated', None))
    ms = model_decls(cases)
    for (toks, n), (kind, items), m in zip(cases, metas, ms):
        corr.cases += 1
        site = ['variable', 'typedef', 'field'][corr.cases % 3]
        r = real_decls(' '.join(toks), site)
        kind = kind + "@" + site
        key = kind + ":" + (m[0] if m[0] == 'ok' else 'err%d' % m[1]) + "/" + r[0]
        corr.dist[key] = corr.dist.get(key, 0) + 1
        msg = compare(m, r)
        if msg is None and kind.startswith('valid') and (m[0] != 'ok' or m[1] != items):
            msg = "model does not decode the printed statement `%s` to its declarators" % ' '.join(toks)
        if msg:
            corr.disagreements.append(dict(case=dict(kind='corr', tokens=toks, n=n, site=site), model=str(m)[:300], impl=str(r)[:300], what=msg + ' (as a ' + site + ')'))
    corr.samples = [dict(tokens=' '.join(cases[0][0])), dict(tokens=' '.join(cases[-1][0]))]
    corr.note = ("extracted fn_decl (function declarations: return-type declarator, name, parameter list, vararg) and extracted parse_decls (the variable loop of _parse_declarations over the declarator model) vs parse_string on the same token lists: "
                 "statements with 1-4 declarators sharing a base type, and token mutations of them; compared: the list of (name, type tree) in order, or rejection")
    return corr


# ---------------------------------------------------------------------------
# conformance to the published field types

_HINTS = {}


def hints(cls):
    if cls not in _HINTS:
        ns = dict(vars(T))
        ns.update(vars(S))
        ns.update(vars(typing))
        _HINTS[cls] = typing.get_type_hints(cls, globalns=ns)
    return _HINTS[cls]


def conforms(v, tp, path="data"):
    """None if value v is of the annotated type tp (recursively), else a description"""
    origin = typing.get_origin(tp)
    if tp is typing.Any:
        return None
    if origin is typing.Union:
        errs = []
        for a in typing.get_args(tp):
            e = conforms(v, a, path)
            if e is None:
                return None
            errs.append(e)
        return "%s: %s is none of %s" % (path, type(v).__name__, tp)
    if origin in (list, typing.List):
        if not isinstance(v, list):
            return "%s: %s is not a list" % (path, type(v).__name__)
        (a,) = typing.get_args(tp) or (typing.Any,)
        for i, x in enumerate(v):
            e = conforms(x, a, "%s[%d]" % (path, i))
            if e:
                return e
        return None
    if origin in (dict, typing.Dict):
        if not isinstance(v, dict):
            return "%s: %s is not a dict" % (path, type(v).__name__)
        ka, va = typing.get_args(tp) or (typing.Any, typing.Any)
        for k, x in v.items():
            e = conforms(k, ka, path + ".key") or conforms(x, va, "%s[%r]" % (path, k))
            if e:
                return e
        return None
    if origin is typing.Literal:
        return None if v in typing.get_args(tp) else "%s: %r not in %s" % (path, v, tp)
    if tp is type(None):
        return None if v is None else "%s: %s is not None" % (path, type(v).__name__)
    if isinstance(tp, type):
        if tp is bool:
            ok = isinstance(v, bool)
        elif tp is int:
            ok = isinstance(v, int) and not isinstance(v, bool)
        else:
            ok = isinstance(v, tp)
        if not ok:
            return "%s: %s is not %s" % (path, type(v).__name__, tp.__name__)
        if dataclasses.is_dataclass(v):
            h = hints(type(v))
            for f in dataclasses.fields(v):
                e = conforms(getattr(v, f.name), h[f.name], path + "." + f.name)
                if e:
                    return e
        return None
    return None


# ---------------------------------------------------------------------------
# search

FIXED = [
    ("requires_qualified", "template <typename T> requires std::integral<T> void f(T);",
     lambda d: [t.value for t in d.namespace.functions[0].template.raw_requires_pre.tokens] == ['std', '::', 'integral', '<', 'T', '>'],
     "the requires-clause keeps the '::' of qualified names"),
]


def check_program(src, want):
    try:
        got = parse_string(src)
    except Exception as e:
        return "the generated header is rejected: %s: %s" % (type(e).__name__, str(e)[:160])
    if got != want:
        return "result differs from the declarations written: " + (astgen.first_diff(want, got) or "?")
    e = conforms(got, S.ParsedData)
    if e:
        return "result does not conform to the published field types: " + e
    return None


def search(ctx, boost=False):
    s = Search()
    rng = ctx.rng
    s.rule = ("AST-first generation: random headers built from variables (specifiers, multi-declarators, initialisers), functions (specifiers, "
              "parameters with defaults, varargs, noexcept / throw / trailing return, bodies, = delete, operators, extern \"C\"), out-of-class method / "
              "constructor / destructor definitions, typedefs, using directives / declarations / aliases, enums, forward declarations, namespaces "
              "(nested, inline, anonymous, re-opened), namespace aliases, extern blocks, template headers (type / non-type / template-template "
              "parameters, packs, defaults, requires), concepts, explicit instantiations, deduction guides, #include / #pragma, with attributes and "
              "static_assert interleaved; types from the C02 generator with rich base names. The expected ParsedData is assembled by the generator, "
              "independently of the parser, and compared for equality; every result is also checked against the dataclass annotations. "
              "non-trivial = program with >=3 declarations or a nested scope; distinct = distinct source text")
    n = ctx.scale(2500, 60000) * (3 if boost else 1)
    for i in range(n):
        g = astgen.Gen(rng, depth=rng.choice([2, 3, 4]))
        src = g.program(rng.choice([1, 2, 3, 5, 8, 12]))
        s.evaluations += 1
        for k in g.kinds:
            s.count(k)
        if g.n >= 3 or 'namespace' in g.kinds or 'extern block' in g.kinds:
            s.nontrivial.add(src)
        msg = check_program(src, g.data)
        if msg:
            s.violations.append(dict(what=msg, case=dict(kind='program', source=src, expected=repr(g.data)[:20000])))
        if i == 5:
            s.samples.append(dict(source=src[:600]))
    # results of the test-suite corpus conform to the published field types
    for src in impl.corpus():
        try:
            d = parse_string(src)
        except Exception:
            continue
        s.evaluations += 1
        s.count("corpus conformance")
        e = conforms(d, S.ParsedData)
        if e:
            s.violations.append(dict(what="result does not conform to the published field types: " + e, case=dict(kind='conform', source=src)))
    for name, src, pred, what in FIXED:
        s.evaluations += 1
        s.count("fixed")
        try:
            ok = pred(parse_string(src))
        except Exception:
            ok = False
        if not ok:
            s.violations.append(dict(what="`%s`: expected that %s" % (src, what), case=dict(kind='fixed', name=name, source=src)))
    return s


def replay(ctx, case):
    k = case.get("kind")
    if k == 'corr-specs':
        names = decl.Names()
        o = run_driver([[88] + decl.enc_tokens(case["tokens"], names)])[0]
        m = ('ok', 'void' if o[2] == 0 else names.rev.get(o[2], '?'), tuple(bool(x) for x in o[3:12]), o[1]) if o[0] == 0 else ('err', o[1])
        r = real_specs(case["tokens"])
        if r[0] != 'other' and m != ('err', 4) and ((m[0] == 'ok') != (r[0] == 'ok') or (m[0] == 'ok' and m != r)):
            return ["specifier loop: model %s, implementation %s" % (m, r)]
        return []
    if k == 'corr-using':
        m = model_using([(case["tokens"], case["in_class"], case["has_template"])])[0]
        msg = using_msg(m, real_using(case["tokens"], case["in_class"], case["has_template"]))
        return ["using statement: " + msg] if msg else []
    if k == 'corr-concept':
        m = model_concepts([(case["tokens"], case["in_class"])])[0]
        r = real_concept(case["tokens"], case["in_class"])
        if r[0] != 'other' and ((m[0] == 'ok') != (r[0] == 'ok') or (m[0] == 'ok' and m != r)):
            return ["concept definition: model %s, implementation %s" % (m, r)]
        return []
    if k == 'corr-tstmt':
        msg = tstmt_msg(model_template_stmt([case["tokens"]])[0], real_template_stmt(case["tokens"]))
        return ["template statement: " + msg] if msg else []
    if k == 'corr-paramsx':
        msg = params_x_msg(model_params_x([case["tokens"]])[0], real_params_x(case["tokens"]))
        return ["parameter list: " + msg] if msg else []
    if k == 'corr-enumdecl':
        m = model_enum_decls([(case["tokens"], case["is_typedef"])])[0]
        msg = enum_decl_msg(m, real_enum_decl(case["tokens"], case["is_typedef"]))
        return ["enum declaration: " + msg] if msg else []
    if k == 'corr-enum':
        m = model_enums([case["tokens"]])[0]
        r = real_enum('enum E { ' + ' '.join(case["tokens"]))
        if m[0] == 'ok' and m[2] == 1 and (r[0] != 'ok' or r[1] != m[1]):
            return ["enumerator list: model %s, implementation %s" % (m[1], r)]
        if m[0] == 'err' and m[1] in (1, 2, 3) and r[0] == 'ok':
            return ["enumerator list: model rejects, implementation reports %s" % (r[1],)]
        return []
    if k == 'corr-fn':
        m = model_fns([case["tokens"]])[0]
        msg = compare_fn(m, real_fn(' '.join(case["tokens"])))
        return [msg] if msg else []
    if k == 'corr':
        m = model_decls([(case["tokens"], case["n"])])[0]
        r = real_decls(' '.join(case["tokens"]), case.get("site", "variable"))
        msg = compare(m, r)
        return [msg] if msg else []
    if k == 'program':
        ns = {}
        for mod in (T, S):
            ns.update({n: getattr(mod, n) for n in dir(mod) if not n.startswith("_")})
        try:
            want = eval(case["expected"], ns)
        except Exception:
            return []
        msg = check_program(case["source"], want)
        return [msg] if msg else []
    if k == 'conform':
        try:
            e = conforms(parse_string(case["source"]), S.ParsedData)
        except Exception:
            return []
        return [e] if e else []
    if k == 'fixed':
        for name, src, pred, what in FIXED:
            if name == case["name"]:
                try:
                    ok = pred(parse_string(src))
                except Exception:
                    ok = False
                return [] if ok else ["`%s`: expected that %s" % (src, what)]
    return []


LEVEL_TEXT = ("PARTIAL. Proved in Coq, for inputs of any size: a declaration statement `spec* T spec* d1, ..., dn <end>` whose declarators are "
              "variables (any legal object type, optional `= expr` / brace initialiser) and function declarators (any legal return type and "
              "parameter list, optional throw / noexcept) in any mixture yields exactly one entry per declarator, in source order, each of its own "
              "kind, with the flags and base type of the statement, its own value tokens, the body skipped exactly "
              "(declaration_statement_decodes, declarator_kinds_follow_the_source, over the declarator round trip of C02); the same for typedef "
              "statements, parameter lists with defaults, template parameter lists, enumerator lists, enum declarations and the using statements; "
              "operator functions, method definitions outside their class (qualified names), explicit instantiations, what a `template` statement "
              "is handed on to, concepts, and -- on the handlers as TRANSLATED from the code on every run (Gen/Dispatch.v) -- the extern / inline / "
              "typedef dispatch in front of a declaration; the specifier flags are the memberships of the keywords written, in any order; and the collecting visitor places every payload in "
              "the scope in which it was written, in source order, for any nesting and re-opening of namespaces and extern blocks "
              "(items_land_where_written). Tie: every model is extracted and run beside parse_string / the real method on valid and mutated token "
              "lists, and the mirrored functions are AST-digest pinned. What is not modelled (operators, decltype, requires, trailing returns, "
              "calling conventions, deduction guides, instantiations, method definitions outside classes, attributes, directives) is decided by "
              "the AST-first search, which compares whole results with independently assembled expectations and checks the published field types.")
LEVEL_NOTE = ("Trusted: Coq kernel, extraction, driver, harness codecs, the generator's expectation builder (hand-written from the documented "
              "dataclasses). The hand-written models mirror the Python code; their agreement is checked by the differential runs, not proved. "
              "For the unmodelled forms this check is a search, not a proof.")
TECHNIQUE = "Coq proofs for whole declaration statements (specifiers, mixed variable / function declarator lists, initialisers, tails), the other modelled statement forms and the scope-placement fold (unbounded) + differential runs + AST-digest pins + AST-first whole-result search with independent expectations"

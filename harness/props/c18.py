"""C18 -- Parser options change exactly what they document."""
import contextlib
import copy
import dataclasses
import io

from harness.core import Corr, Search
from harness import impl, blocks, soups
from harness.props import c14

from cxxheaderparser.options import ParserOptions
from cxxheaderparser.simple import parse_string
from cxxheaderparser import types as T

PID = "C18"
TITLE = "Parser options change exactly what they document"
THEOREM_FILE = "Props/C18.v"
NEEDS_DRIVER = False
MODELLED = ("the conversion step of _parse_parameters is modelled on source-level type trees (Misc/VoidOpt.v) and pinned by text; that it is the "
            "only reader of the option, that all parameter lists come from that method, the verbose and preprocessor clauses are AST facts; "
            "their dynamic counterpart is the option-grid search")
ASSUMPTIONS = ["a lone `void` parameter is detected by its type only (the code ignores whether it is named; a named void parameter is not valid C++)"]


def zero_void(o):
    """independent statement of the documented effect on a result tree: every parameter list that is a lone
    unnamed void parameter becomes empty"""
    if dataclasses.is_dataclass(o):
        for f in dataclasses.fields(o):
            v = getattr(o, f.name)
            if f.name == "parameters" and isinstance(v, list):
                for p in v:
                    zero_void(p)
                if len(v) == 1 and isinstance(v[0].type, T.Type) and len(v[0].type.typename.segments) == 1 and \
                   getattr(v[0].type.typename.segments[0], "name", None) == "void":
                    setattr(o, f.name, [])
            else:
                zero_void(v)
    elif isinstance(o, list):
        for x in o:
            zero_void(x)
    elif isinstance(o, dict):
        for x in o.values():
            zero_void(x)
    return o


VOID_FORMS = ["void f%d(void);", "void (*fp%d)(void);", "typedef int (*cb%d)(void);", "typedef void fn%d(void);",
              "void g%d(int (*cb)(void), void (*d)(void (*)(void)));", "struct S%d { void m(void); S%d(void); virtual ~S%d(void); void (*p)(void); };",
              "void h%d(void*);", "void k%d(void, int);", "int (*arr%d[3])(void);", "using A%d = void (*)(void);", "void v%d(const void);",
              "auto l%d(void) -> int;", "template <typename T> void t%d(void);", "void w%d(void (&r)(void));", "extern \"C\" void e%d(void);",
              "std::function<void (void)> sf%d;", "void n%d(int(void));"]


def gen_void_program(rng):
    n = rng.randint(1, 5)
    lines = []
    for i in range(n):
        f = rng.choice(VOID_FORMS)
        k = rng.randint(0, 999)
        lines.append(f.replace("%d", str(k)))
        if rng.random() < 0.3:
            lines.append("int x%d = %d %% 7;" % (k, k))
    return "\n".join(lines) + "\n"


def check_void(src):
    try:
        on = parse_string(src, options=ParserOptions(convert_void_to_zero_params=True))
        off = parse_string(src, options=ParserOptions(convert_void_to_zero_params=False))
        dflt = parse_string(src)
    except Exception as e:
        return None
    if on != dflt:
        return "the default options differ from convert_void_to_zero_params=True"
    if zero_void(copy.deepcopy(off)) != on:
        return "option off/on differ by more (or less) than emptying the lone-void parameter lists"
    return None


def check_verbose(src):
    quiet_err = None
    try:
        quiet = parse_string(src)
    except impl.CxxParseError as e:
        quiet, quiet_err = None, e
    buf = io.StringIO()
    try:
        with contextlib.redirect_stdout(buf):
            loud = parse_string(src, options=ParserOptions(verbose=True))
        loud_err = None
    except Exception as e:
        loud, loud_err = None, e
    if (quiet_err is None) != (loud_err is None):
        return "verbose mode changes whether parsing succeeds (quiet: %r, verbose: %r)" % (quiet_err, loud_err)
    if quiet_err is None and quiet != loud:
        return "verbose mode changes the result"
    return None


def check_preprocessor(src):
    marker = "int pp_added_%d;\n" % len(src)
    # what the hook returns: the content with a declaration added, a constant text, and nothing at all (a header whose
    # whole body is behind a platform macro) -- in every case the return value is what must be parsed
    for label, ret in (("content with a marker", lambda c: marker + (c or "")), ("a constant text", lambda c: "int only_pp;\n"),
                       ("the empty string", lambda c: ""), ("blank lines", lambda c: "\n\n")):
        calls = []

        def pp(filename, content, ret=ret):
            calls.append((filename, content))
            return ret(content)
        try:
            got = parse_string(src, filename="x.h", options=ParserOptions(preprocessor=pp))
        except Exception as e:
            got = ("err", type(e).__name__)
        try:
            want = parse_string(ret(src), filename="x.h")
        except Exception as e:
            want = ("err", type(e).__name__)
        if len(calls) != 1:
            return "preprocessor called %d times" % len(calls)
        if calls[0] != ("x.h", src):
            return "preprocessor called with %r" % (calls[0],)
        if got != want:
            return "parsing with a preprocessor that returns %s differs from parsing its return value" % label
    return None


def correspond(ctx):
    """no extracted model run: the conversion step is pinned by text; dynamic cross-check = the option grid of the search"""
    corr = Corr()
    corr.cases = 0
    corr.note = "not applicable: Misc/VoidOpt.v is tied to the code by the text pin of the conversion step and the single-site facts; the option-grid search exercises the implementation"
    return corr


def search(ctx, boost=False):
    s = Search()
    s.rule = ("option grid over corpus + generated block programs + value-bearing programs (with '%' in expressions) + programs with (void) lists at "
              "every nesting level (functions, methods, function pointers, typedefs, callbacks of callbacks, std::function): off/on differ exactly by "
              "the documented emptying; verbose == quiet (stdout captured); a counting preprocessor is called once with (filename, content) and its "
              "return value is what is parsed; non-trivial = input with a (void) list or >=3 declarations; distinct = distinct source")
    rng = ctx.rng
    srcs = list(impl.corpus())
    for _ in range(ctx.scale(150, 4000)):
        srcs.append(gen_void_program(rng))
    for _ in range(ctx.scale(60, 1500)):
        srcs.append(blocks.gen_program(rng, rng.choice([4, 10])).source())
    for _ in range(ctx.scale(150, 3000)):
        name, tmpl, terms, _, wrap = rng.choice(c14.POSITIONS)
        toks = c14.gen_expr(rng, rng.choice([2, 6]), terms)
        text = " ".join(t for t in toks if "\n" not in t) if wrap == "pragma" else soups.render(rng, toks)
        srcs.append(tmpl.replace("@", " " + text + " "))
    srcs += ["struct M { M operator%(const M&) const; M& operator%=(const M&); };\n", "void log(const char* fmt = \"%s %d\\n\");\n",
             "template <int N> struct B {}; B<5 % 2> mk(void);\n", "int r = 100 % 7;\n"]
    for src in srcs:
        s.evaluations += 3
        if "void" in src or src.count(";") >= 3:
            s.nontrivial.add(src)
        for name, fn in (("void", check_void), ("verbose", check_verbose), ("preprocessor", check_preprocessor)):
            s.count(name)
            msg = fn(src)
            if msg:
                s.violations.append(dict(what=msg, case=dict(kind=name, source=src)))
    s.samples = [dict(source=srcs[-5]), dict(source=gen_void_program(rng))]
    return s


def replay(ctx, case):
    fn = {"void": check_void, "verbose": check_verbose, "preprocessor": check_preprocessor}.get(case.get("kind"))
    if fn is None:
        return []
    m = fn(case["source"])
    return [m] if m else []


LEVEL_TEXT = ("Proved in Coq over all source-level type trees: with the option off parameter lists are kept as written, with it on the result is "
              "the off-result with exactly the lone-void parameter lists emptied at every nesting level (void_option_off_is_identity, "
              "void_option_exact); the conversion step is pinned by text and, by recomputed AST facts, is the only reader of the option while every "
              "parameter list reaching a dataclass comes from _parse_parameters (void_option_single_site); self.verbose is read only to choose "
              "debug_print and to re-raise, debug_print calls are expression statements with literal formats matching their call-free arguments "
              "(verbose_is_inert); the preprocessor hook is applied once before the stream is built (preprocessor_once). Search: option grid over "
              "corpus and generated programs incl. (void) at all nesting levels, '%' in names and values, counting preprocessor.")
LEVEL_NOTE = ("Trusted: Coq kernel, translator (facts, text pin), harness. The link between source-level parameter lists and the parser's "
              "recursion is the facts + search; no extracted-model run for this property.")
TECHNIQUE = "Coq proof on type trees (nested induction) + recomputed AST facts + option-grid search"

"""C13 -- Skipped regions are skipped exactly."""
from harness.core import Corr, Search, run_driver
from harness import impl, soups

PID = "C13"
TITLE = "Skipped regions are skipped exactly"
THEOREM_FILE = "Props/C13.v"
MODELLED = ("Parse/Balanced.v is a hand-written mirror of _discard_contents/_consume_balanced_tokens "
            "(tables regenerated); the call sites (_parse_fn_end, _parse_method_end, _discard_ctor_initializer, "
            "_consume_attribute*, _consume_static_assert) are not modelled: covered by the region search")
ASSUMPTIONS = ["the soup's strict brackets () [] {} [[ ]] nest properly at token level ('<' '>' free)"]

ALPHA = ["NAME", "<", ">", "(", ")", "[", "]", "{", "}", "DBL_LBRACKET", "DBL_RBRACKET", ",", ";", "INT_CONST_DEC"]
PAIRS = [("(", ")"), ("[", "]"), ("{", "}"), ("DBL_LBRACKET", "DBL_RBRACKET"), ("<", ">")]


def gen_types(rng, budget, p_break):
    """token-type soups: mostly strict-nested, sometimes deliberately broken"""
    out = []
    n = rng.randint(0, budget)
    while n > 0:
        r = rng.random()
        if r < 0.3 and n >= 2:
            o, c = rng.choice(PAIRS[:4])
            inner = gen_types(rng, min(n - 2, budget // 2), p_break)
            out += [o] + inner + [c]
            n -= 2 + len(inner)
        elif r < 0.5:
            out.append(rng.choice(["<", ">"]))
            n -= 1
        else:
            out.append(rng.choice(["NAME", ",", ";", "INT_CONST_DEC"]))
            n -= 1
    if rng.random() < p_break and out:
        k = rng.randint(1, 3)
        for _ in range(k):
            m = rng.random()
            i = rng.randrange(len(out))
            if m < 0.4:
                del out[i]
            elif m < 0.8:
                out.insert(i, rng.choice(ALPHA))
            else:
                out = out[:i]
            if not out:
                break
    return out


def impl_run(kind, a, toks):
    """Run the real function over a token list; canonical output like Run.v"""
    P = impl.P
    ltoks = [impl.mk_tok(t) for t in toks]
    p = impl.parser_over(ltoks)
    n0 = len(ltoks)
    try:
        if kind == 1:
            p._discard_contents(a[0], a[1])
            return [0, len(p.lex.tokbuf)]
        if kind == 2:
            inits = [impl.mk_tok(t) for t in a]
            got = p._consume_balanced_tokens(*inits)
            return [0, len(got), len(p.lex.tokbuf)]
        if kind == 3:
            got = p._consume_value_until([], *a)
            return [0, len(got), len(p.lex.tokbuf)]
    except EOFError:
        return [1]
    except impl.CxxParseError as e:
        if e.tok is not None:
            return [2, impl.CODE[e.tok.type]]
        return [4]
    except (IndexError, KeyError):
        return [3]


def gen_case(rng):
    kind = rng.choice([1, 2, 2, 3, 3])
    body = gen_types(rng, rng.choice([3, 8, 20, 40]), 0.4)
    if kind == 1:
        o, c = rng.choice(PAIRS[:4])
        toks = body + [c] + gen_types(rng, 4, 0.5)
        return kind, [o, c], toks
    if kind == 2:
        if rng.random() < 0.2:
            a = ["(", "("]
            toks = body + [")", ")"] + gen_types(rng, 4, 0.5)
        else:
            o, c = rng.choice(PAIRS)
            a = [o]
            toks = body + [c] + gen_types(rng, 4, 0.5)
        return kind, a, toks
    terms = rng.choice([[",", ";"], [",", ")"], [",", ">"], [",", "}"], [",", ">", "ELLIPSIS"]])
    toks = body + [rng.choice(terms)] + gen_types(rng, 4, 0.5)
    return kind, terms, toks


def encode(kind, a, toks):
    C = impl.CODE
    if kind == 1:
        return [1, C[a[0]], C[a[1]]] + [C[t] for t in toks]
    return [kind, len(a)] + [C[t] for t in a] + [C[t] for t in toks]


def correspond(ctx, kinds=(1, 2, 3)):
    corr = _correspond(ctx, kinds)
    if kinds == (1, 2, 3):
        # static_assert as translated into Gen/Dispatch.v: interpreter vs code
        from harness import dispatchcorr
        dispatchcorr.correspond_dispatch(ctx, corr, only=('static_assert', 'attribute', '__attribute__', '__declspec'))
    return corr


def _correspond(ctx, kinds=(1, 2, 3)):
    corr = Corr()
    n = ctx.scale(4000, 60000)
    cases = []
    while len(cases) < n:
        c = gen_case(ctx.rng)
        if c[0] in kinds:
            cases.append(c)
    outs = run_driver([encode(*c) for c in cases])
    for c, mo in zip(cases, outs):
        io = impl_run(*c)
        corr.cases += 1
        key = "kind%d:%s" % (c[0], "ok" if io[0] == 0 else "err%d" % io[0])
        corr.dist[key] = corr.dist.get(key, 0) + 1
        if io != mo:
            corr.disagreements.append(dict(case=dict(kind=c[0], args=c[1], toks=c[2]), model=mo, impl=io))
    corr.samples = [dict(kind=c[0], args=c[1], toks=" ".join(c[2]), result=o) for c, o in list(zip(cases, outs))[:3]]
    corr.note = "random strict-nested / broken / truncated token-type lists through Balanced.v (extracted) and the real CxxParser methods over a list-backed TokenStream"
    return corr


# ---------------------------------------------------------------------------
# search: regions of real declarations x soups; oracle = result with empty region
# ---------------------------------------------------------------------------

REGIONS = [
    ("fn_body", "void f() {@} int after;", "brace"),
    ("fn_body_trailing", "auto f() -> int {@} int after;", "brace"),
    ("method_body", "struct S { void m() const {@} int fld; }; int after;", "brace"),
    ("method_impl", "void S::m() {@} int after;", "brace"),
    ("ctor_init_paren", "struct S { S() : a(@), b(1) {} int fld; }; int after;", "paren"),
    ("ctor_init_brace", "struct S { S() : a{@}, b{2} {} int fld; }; int after;", "brace"),
    ("ctor_body", "struct S { S() : a(1) {@} int fld; }; int after;", "brace"),
    ("dtor_body", "struct S { ~S() {@} int fld; }; int after;", "brace"),
    ("attr_args", "[[gnu::x(@)]] int v; int after;", "all"),
    ("attr_list", "[[@]] int v; int after;", "all"),
    ("attr_on_class", "struct [[x(@)]] S { int fld; }; int after;", "all"),
    ("gcc_attr", "__attribute__((@)) int v; int after;", "all"),
    ("declspec", "__declspec(@) int v; int after;", "all"),
    ("alignas", "alignas(@) int v; int after;", "all"),
    ("alignas_member", "struct S { alignas(@) int fld; }; int after;", "all"),
    ("static_assert", "static_assert(@); int after;", "paren"),
    ("static_assert_in_class", "struct S { static_assert(@); int fld; }; int after;", "paren"),
    ("friend_body", "struct S { friend void g() {@} int fld; }; int after;", "brace"),
    ("operator_body", "struct S { bool operator<(const S& o) const {@} int fld; }; int after;", "brace"),
    ("template_fn_body", "template <typename T> T g(T t) {@} int after;", "brace"),
    ("ns_fn_body", "namespace n { void f() {@} } int after;", "brace"),
    ("enum_attr", "enum E { A [[x(@)]] = 1, B }; int after;", "all"),
]

# which strict kinds must nest for the consumer used (discard counts one kind only;
# the property speaks of bracket-balanced soups, so all kinds always nest)


def fill(tmpl, text):
    return tmpl.replace("@", " " + text + " ")


def parse(text):
    return impl.parse_string(text)


def check_region(name, tmpl, soup_text):
    """returns None or a violation message"""
    try:
        base = parse(fill(tmpl, ""))
    except Exception as e:  # the empty region must parse
        return "empty region does not parse: %s" % e
    try:
        got = parse(fill(tmpl, " " + soup_text + " "))
    except Exception as e:
        return "region %s: soup makes parsing fail: %s" % (name, str(e)[:200])
    if got != base:
        return "region %s: result differs from the empty-region result" % name
    return None


def search(ctx, boost=False):
    s = Search()
    s.rule = ("every skippable region (%d region templates) x strict-nested token soups rendered with random "
              "separators (in the blindly skipped regions also subscripts glued to '[[' / ']]'); non-trivial = soup with >=1 token; distinct = distinct (region, soup text)" % len(REGIONS))
    n = ctx.scale(1500, 40000) * (4 if boost else 1)
    rng = ctx.rng
    for i in range(n):
        name, tmpl, kind = REGIONS[i % len(REGIONS)]
        if kind != "all" and rng.random() < 0.35:
            # regions skipped by _discard_contents count one bracket kind only: subscripts of subscripts written
            # without blanks (']]' is one token for the lexer) are bracket-balanced text and must be skipped too
            toks = soups.gen_soup(rng, rng.choice([6, 15, 40]), kinds=[("(", ")"), ("[", "]"), ("{", "}"), ("[", "]")])
            text = soups.render_glued(rng, toks)
            s.count("glued-brackets")
        else:
            toks = soups.gen_soup(rng, rng.choice([2, 6, 15, 40]))
            text = soups.render(rng, toks)
        s.evaluations += 1
        if toks:
            s.nontrivial.add((name, text))
        s.count(name)
        msg = check_region(name, tmpl, text)
        if msg:
            s.violations.append(dict(what=msg, case=dict(kind="region", region=name, template=tmpl, soup=text)))
        if len(s.samples) < 3 and len(toks) > 4:
            s.samples.append(dict(region=name, input=fill(tmpl, text)))
    return s


def replay(ctx, case):
    if case.get("kind") == "region":
        m = check_region(case["region"], case["template"], case["soup"])
        return [m] if m else []
    return []

LEVEL_TEXT = ("Proved in Coq for all token lists (no size bound): _discard_contents returns exactly after the matching closer "
              "for every soup in which the two counted bracket types nest (discard_exact); _consume_balanced_tokens started "
              "after any strict opener returns exactly the group for every strict-nested soup with '<'/'>' free "
              "(consume_balanced_exact), never consumes or invents tokens outside it (consume_contiguous), and the "
              "continuation is independent of the soup (region_independence). On the consumers' CALL SITES as translated from the code "
              "on every run (Gen/Dispatch.v): static_assert(...) consumes exactly its parenthesized group for any soup in which "
              "parentheses nest, __attribute__((...)) and __declspec(...) exactly theirs for every strict-nested soup "
              "(static_assert_is_skipped_exactly, gcc_attribute_is_skipped_exactly, declspec_is_skipped_exactly). The model is a hand-written mirror of the two "
              "Python functions with tables regenerated from the live class on every run; a differential run (thousands of "
              "balanced/broken/truncated token lists) ties it to the code, and a region search (22 skippable regions x "
              "generated soups through parse_string) covers the un-modelled call sites.")
LEVEL_NOTE = ("Trusted: Coq kernel, translator for the tables, extraction (ExtrOcamlBasic), driver, harness. Hand model validated by "
              "correspondence only. Call sites of the consumers are searched, not proved. ']]' closing two '[' (F8) is outside the "
              "soup class (token level).")
TECHNIQUE = "Coq proof by induction over nested-soup derivations (stack invariant) + differential run of the extracted model + region search"

"""C03 -- Class bodies: member kinds, access levels and special members are right."""
from harness.core import Corr, Search, run_driver
from harness import impl, blocks
from harness.props import c05

from cxxheaderparser.simple import parse_string
from cxxheaderparser import types as T

PID = "C03"
TITLE = "Class bodies: member kinds, access levels and special members are right"
THEOREM_FILE = "Props/C03.v"
MODELLED = ("the access level attached to a member is proved on the regenerated block machine (access_in_force_partial); modelled by hand, proved "
            "and tied differentially: base clauses (BaseClause), the class head (Members / class_head), the decision table of "
            "_maybe_parse_class_enum_decl (ClassEnum), constructor / destructor recognition (CtorDtor), method tails with constructor initialiser "
            "lists (MethodTail), field and typedef statements (Members) and WHOLE member statements -- fields and methods mixed in one declarator "
            "list, endings, constructors and destructors (MemberStmt, mirroring _parse_declarations / _parse_decl / _parse_function / _parse_field "
            "in a class body), conversion operators (ConvOp), operator members (OperatorMember over OpName), friends (FriendStmt), what follows the "
            "closing brace of a definition (FinishClass). NOT modelled (decided by the AST-first class search): typedef / template / using members "
            "as dispatched around the statement, trailing return types, requires-clauses on methods, the numbering of anonymous ids")
ASSUMPTIONS = []


def real_bases(text):
    try:
        d = impl.parse_string(text)
    except (impl.CxxParseError, AssertionError, RecursionError):
        return ('err',)
    ns = d.namespace
    if len(ns.classes) != 1 or ns.variables or ns.functions:
        return ('other',)
    out = []
    for b in ns.classes[0].class_decl.bases:
        segs = b.typename.segments
        if len(segs) != 1 or getattr(segs[0], "specialization", None) is not None or not hasattr(segs[0], "name"):
            return ('other',)
        out.append((b.access, segs[0].name, b.virtual, b.param_pack))
    return ('ok', out)


def corr_bases(ctx, corr):
    """the base-clause model (Parse/BaseClause.v) vs the implementation"""
    from harness import decl
    from harness.props import c02
    rng = ctx.rng
    cases, metas = [], []
    for _ in range(ctx.scale(800, 16000)):
        key = rng.choice(["struct", "class", "union"])
        default = "private" if key == "class" else "public"
        toks, exp = [], []
        for i in range(rng.choice([1, 1, 2, 3, 4])):
            acc = rng.choice([None, None, "public", "private", "protected"])
            virt = rng.random() < 0.3
            first = rng.random() < 0.5
            pack = rng.random() < 0.15
            mods = ([acc] if acc else [])
            mods = (["virtual"] + mods if first else mods + ["virtual"]) if virt else mods
            if i:
                toks.append(',')
            toks += mods + ["B%d" % i] + (["..."] if pack else [])
            exp.append((acc or default, "B%d" % i, virt, pack))
        toks += ['{', '}', ';']
        cases.append((key, default, toks))
        metas.append(('bases-valid', exp))
        if rng.random() < 0.5:
            mt = c02.mutate(rng, toks[:-3])
            mt = [t for t in mt if t not in ('(', ')', '[', ']', '*', '&', '&&', 'const', 'volatile', '3', 'void')] or ['B0']
            cases.append((key, default, mt + ['{', '}', ';']))
            metas.append(('bases-mutated', None))
    lines, nms = [], []
    for key, default, toks in cases:
        names = decl.Names()
        lines.append([85, len(toks) + 2, impl.CODE[default]] + decl.enc_tokens(toks, names))
        nms.append(names)
    outs = run_driver(lines)
    for (key, default, toks), (kind, exp), o, names in zip(cases, metas, outs, nms):
        corr.cases += 1
        r = real_bases(key + " S : " + ' '.join(toks))
        if o[0] == 0:
            k = o[2]
            m = ('ok', [(impl.TT[o[3 + 4 * i]], names.rev.get(o[4 + 4 * i], '?'), bool(o[5 + 4 * i]), bool(o[6 + 4 * i])) for i in range(k)], o[1])
        else:
            m = ('err', o[1])
        corr.dist[kind + ":" + m[0] + "/" + r[0]] = corr.dist.get(kind + ":" + m[0] + "/" + r[0], 0) + 1
        msg = None
        if m[0] == 'ok' and m[2] == 3:
            if r[0] != 'ok':
                msg = "model reports the bases %s but the implementation %s" % (m[1], "rejects the input" if r[0] == 'err' else "reports something else")
            elif r[1] != m[1]:
                msg = "bases: model %s; implementation %s" % (m[1], r[1])
        elif m[0] == 'err' and m[1] in (1, 2, 3) and r[0] == 'ok':
            msg = "model rejects (code %d) but the implementation reports %s" % (m[1], r[1])
        if msg is None and kind == 'bases-valid' and (m[0] != 'ok' or m[1] != exp):
            msg = "model does not decode the printed base clause `%s`" % ' '.join(toks)
        if msg:
            corr.disagreements.append(dict(case=dict(kind='corr-bases', key=key, tokens=toks), model=str(m)[:300], impl=str(r)[:300], what=msg))


FIELD_INITS = [None, None, None, ['=', '7'], ['=', 'a', '+', 'f', '(', '1', ',', '2', ')'], ['{', '1', '}'], ['=', '{', '1', ',', '2', '}'], [':', '3'],
               [':', '3', '=', '1'], [':', '12', '{', '0', '}']]


def real_fields(text):
    try:
        d = impl.parse_string(text)
    except (impl.CxxParseError, AssertionError, RecursionError):
        return ('err',)
    ns = d.namespace
    if len(ns.classes) != 1 or ns.functions or ns.variables or ns.typedefs:
        return ('other',)
    c = ns.classes[0]
    if c.methods or c.classes or c.typedefs or c.enums or c.using or c.using_alias or c.friends or c.forward_decls or not c.fields:
        return ('other',)
    from harness import decl
    out = []
    flags = None
    for f in c.fields:
        if f.access != 'public' or f.name is None:
            return ('other',)
        fl = (f.constexpr, f.inline, f.static, f.mutable)
        if flags is not None and fl != flags:
            return ('other',)
        flags = fl
        try:
            out.append((f.name, decl.from_real(f.type), None if f.bits is None else str(f.bits),
                        None if f.value is None else tuple(t.value for t in f.value.tokens)))
        except decl.Unrepresentable:
            return ('other',)
    return ('ok', flags, out)


def corr_fields(ctx, corr):
    """field statements: extracted field_stmt (specifier loop + validate + declarator / bit-field / initialiser loop) vs the
    fields of `struct S_ { <statement> };`"""
    from harness import decl, members
    from harness.props import c02
    rng = ctx.rng
    cases = []
    for _ in range(ctx.scale(800, 16000)):
        base = rng.choice(['Foo', 'Bar', 'T'])
        pre = [rng.choice(['static', 'mutable', 'constexpr', 'inline', 'const', 'volatile', 'extern', 'virtual'])
               for _ in range(rng.choice([0, 0, 1, 1, 2]))]
        toks = pre + [base]
        n = rng.choice([1, 1, 2, 3])
        for i in range(n):
            while True:
                t = decl.rand_type(rng, rng.choice([0, 0, 1, 2, 4]))
                t = _rebase(t, ('B', base, False, False))
                if decl.legal(t) and decl.var_ok(t):
                    break
            if i:
                toks.append(',')
            toks += decl.print_layers(decl.layers(t)[1], ['f%d' % i])
            init = rng.choice(FIELD_INITS)
            if init:
                toks += init
        toks.append(';')
        cases.append((toks, n))
        if rng.random() < 0.3:
            mt = c02.mutate(rng, toks[:-1]) + [';']
            cases.append((mt, mt.count(',') + 1))
    # the model sees what the implementation sees: the statement followed by the closing tokens of the host class
    ms = members.run_members(92, [(toks + ['}', ';'], n) for toks, n in cases])
    for (toks, n), m in zip(cases, ms):
        corr.cases += 1
        r = real_fields('struct S_ { ' + ' '.join(toks) + ' };')
        key = "field:" + (m[0] if m[0] == 'ok' else 'err%d' % m[1]) + "/" + r[0]
        corr.dist[key] = corr.dist.get(key, 0) + 1
        msg = None
        if m[0] == 'ok' and m[3] == 2:
            mm = ((m[1][2], m[1][4], m[1][5], m[1][8]), m[2])      # constexpr, inline, static, mutable
            if r[0] == 'err':
                msg = "model decodes the field statement but the implementation rejects it"
            elif r[0] == 'ok' and (r[1], r[2]) != mm:
                msg = "model %s; implementation %s %s" % (mm, r[1], r[2])
        elif m[0] == 'err' and m[1] in (1, 2, 3) and r[0] == 'ok':
            msg = "model rejects (code %d) but the implementation reports %s" % (m[1], r[2])
        if msg:
            corr.disagreements.append(dict(case=dict(kind='corr-field', tokens=toks, n=n), model=str(m)[:300], impl=str(r)[:300],
                                           what="field statement `%s`: %s" % (' '.join(toks), msg)))


def _rebase(t, base):
    k = t[0]
    if k == 'B':
        return base
    if k == 'P':
        return ('P', _rebase(t[1], base), t[2], t[3])
    if k in 'RM':
        return (k, _rebase(t[1], base))
    if k == 'A':
        return ('A', _rebase(t[1], base), t[2])
    return ('F', _rebase(t[1], base), t[2], t[3])


MT_QUALS = [['const'], ['volatile'], ['override'], ['final'], ['&'], ['&&'], ['noexcept'], ['noexcept', '(', 'true', ')'],
            ['noexcept', '(', 'f', '(', 'a', ',', '(', 'b', ')', ')', ')'], ['throw', '(', ')'], ['throw', '(', 'int', ',', 'Foo', ')']]
MT_ENDS = [[';'], [';'], ['=', '0', ';'], ['=', 'delete', ';'], ['=', 'default', ';'], ['{', '}'], ['{', 'return', 'x', '[', '0', ']', ';', '}'],
           [':', 'a', '(', '1', ')', '{', '}'], [':', 'a', '(', '1', ')', ',', 'b', '{', '2', ',', '(', '3', ')', '}', '{', 'f', '(', ')', ';', '}'],
           [':', '::', 'B', '<', 'T', '>', '(', 'x', ')', ',', 'c', '(', ')', '...', '{', '}'], ['=', '1', ';'], ['=', '00', ';']]


def real_method_end(tail):
    """flags of the method `m` / constructor of struct S_ whose declaration ends with the given tail tokens"""
    text = 'struct S_ { S_ ( int a ) ' + ' '.join(tail) + ' };'
    try:
        d = impl.parse_string(text)
    except (impl.CxxParseError, AssertionError, RecursionError):
        return ('err',)
    ns = d.namespace
    if len(ns.classes) != 1:
        return ('other',)
    c = ns.classes[0]
    if len(c.methods) != 1 or c.fields or c.classes or c.typedefs:
        return ('other',)
    m = c.methods[0]
    if m.has_trailing_return or m.raw_requires:
        return ('other',)
    val = lambda v: None if v is None else tuple(x.value for x in v.tokens)
    return ('ok', (m.const, m.volatile, m.override, m.final, {None: 0, '&': 1, '&&': 2}[m.ref_qualifier], val(m.throw), val(m.noexcept),
                   m.pure_virtual, m.deleted, m.default, m.has_body))


def corr_method_ends(ctx, corr):
    """the method-tail model (Parse/MethodTail.v) vs the flags the implementation reports for a constructor with that tail"""
    from harness import decl
    from harness.props import c02
    rng = ctx.rng
    cases = []
    for _ in range(ctx.scale(900, 18000)):
        quals = []
        for _q in range(rng.choice([0, 0, 1, 2, 3, 4])):
            quals += rng.choice(MT_QUALS)
        end = list(rng.choice(MT_ENDS))
        tail = quals + end
        cases.append(tail)
        if rng.random() < 0.3:
            mt = c02.mutate(rng, tail)
            cases.append([t for t in mt if t not in ('[', ']')] or [';'])
    lines, nms = [], []
    for tail in cases:
        names = decl.Names()
        lines.append([94] + decl.enc_tokens(tail + ['}', ';'], names))
        nms.append(names)
    outs = run_driver(lines)
    for tail, o, names in zip(cases, outs, nms):
        corr.cases += 1
        if o[0] == 0:
            i = 7

            def opt(i):
                if o[i] == 0:
                    return None, i + 1
                n = o[i + 1]
                vals = tuple(names.rev[o[i + 2 + 2 * j + 1]] if o[i + 2 + 2 * j + 1] else impl.TT[o[i + 2 + 2 * j]] for j in range(n))
                return vals, i + 2 + 2 * n
            th, i = opt(i)
            ne, i = opt(i)
            fl = (bool(o[2]), bool(o[3]), bool(o[4]), bool(o[5]), o[6], th, ne, bool(o[i]), bool(o[i + 1]), bool(o[i + 2]), bool(o[i + 3]))
            m = ('ok', fl, o[1])
        else:
            m = ('err', o[1])
        r = real_method_end(tail)
        key = "mtail:" + (m[0] if m[0] == 'ok' else 'err%d' % m[1]) + "/" + r[0]
        corr.dist[key] = corr.dist.get(key, 0) + 1
        msg = None
        if m[0] == 'ok':
            want_rest = 2 if m[1][10] else 3            # body: '}' ';' remain; otherwise ';' '}' ';'
            if m[2] == want_rest and (m[1][10] or tail_has_semicolon_at(tail, m[2])):
                if r[0] == 'err':
                    msg = "model decodes the method tail but the implementation rejects it"
                elif r[0] == 'ok' and r[1] != m[1]:
                    msg = "model %s; implementation %s" % (m[1], r[1])
        elif m[1] in (1, 2, 3) and r[0] == 'ok':
            msg = "model rejects (code %d) but the implementation reports %s" % (m[1], r[1])
        if msg:
            corr.disagreements.append(dict(case=dict(kind='corr-mtail', tokens=tail), model=str(m)[:300], impl=str(r)[:300],
                                           what="method tail `%s`: %s" % (' '.join(tail), msg)))


def tail_has_semicolon_at(tail, rest):
    """the token at which the model stopped is the ';' that ends the declaration"""
    full = tail + ['}', ';']
    return full[len(full) - rest] == ';'


def real_class_head(key, toks):
    try:
        d = impl.parse_string(key + " S " + ' '.join(toks) + " } ;")
    except (impl.CxxParseError, AssertionError, RecursionError):
        return ('err',)
    ns = d.namespace
    if len(ns.classes) != 1 or ns.variables or ns.functions:
        return ('other',)
    cd = ns.classes[0].class_decl
    out = []
    for b in cd.bases:
        segs = b.typename.segments
        if len(segs) != 1 or getattr(segs[0], "specialization", None) is not None or not hasattr(segs[0], "name"):
            return ('other',)
        out.append((b.access, segs[0].name, b.virtual, b.param_pack))
    return ('ok', cd.final, cd.explicit, out)


def corr_class_heads(ctx, corr):
    """class heads after the name: final / explicit, base clause, opening brace"""
    from harness import decl
    from harness.props import c02
    rng = ctx.rng
    cases = []
    for _ in range(ctx.scale(600, 12000)):
        key = rng.choice(["struct", "class"])
        default = "private" if key == "class" else "public"
        toks = [rng.choice(['final', 'explicit']) for _ in range(rng.choice([0, 0, 0, 1, 2]))]
        nb = rng.choice([0, 0, 1, 2, 3])
        if nb:
            toks.append(':')
            for i in range(nb):
                acc = rng.choice([None, "public", "private", "protected"])
                mods = ([acc] if acc else []) + (['virtual'] if rng.random() < 0.3 else [])
                rng.shuffle(mods)
                if i:
                    toks.append(',')
                toks += mods + ['B%d' % i] + (['...'] if rng.random() < 0.1 else [])
        toks.append('{')
        cases.append((key, default, toks))
        if rng.random() < 0.4:
            mt = [t for t in c02.mutate(rng, toks[:-1]) if t in ('final', 'explicit', ':', ',', 'virtual', 'public', 'private', 'protected', '...') or t[0] == 'B'] + ['{']
            cases.append((key, default, mt))
    lines, nms = [], []
    for key, default, toks in cases:
        names = decl.Names()
        lines.append([95, impl.CODE[default]] + decl.enc_tokens(toks + ['}', ';'], names))
        nms.append(names)
    outs = run_driver(lines)
    for (key, default, toks), o, names in zip(cases, outs, nms):
        corr.cases += 1
        if o[0] == 0:
            k = o[4]
            m = ('ok', bool(o[2]), bool(o[3]), [(impl.TT[o[5 + 4 * i]], names.rev.get(o[6 + 4 * i], '?'), bool(o[7 + 4 * i]), bool(o[8 + 4 * i])) for i in range(k)], o[1])
        else:
            m = ('err', o[1])
        r = real_class_head(key, toks)
        corr.dist["head:" + m[0] + "/" + r[0]] = corr.dist.get("head:" + m[0] + "/" + r[0], 0) + 1
        msg = None
        if m[0] == 'ok' and m[4] == 2:
            if r[0] == 'err':
                msg = "model decodes the class head but the implementation rejects it"
            elif r[0] == 'ok' and tuple(r) != tuple(m[:4]):
                msg = "model %s; implementation %s" % (m[:4], r)
        elif m[0] == 'err' and m[1] in (1, 2, 3) and r[0] == 'ok':
            msg = "model rejects (code %d) but the implementation reports %s" % (m[1], r)
        if msg:
            corr.disagreements.append(dict(case=dict(kind='corr-head', key=key, tokens=toks), model=str(m)[:300], impl=str(r)[:300],
                                           what="class head `%s S %s`: %s" % (key, ' '.join(toks), msg)))


# ---------------------------------------------------------------------------
# the class / enum dispatch behind an elaborated type: extracted class_enum (Parse/ClassEnum.v) vs the real
# _maybe_parse_class_enum_decl on the same (class key, specifiers, template, typedef, friend, tokens)

CE_KEYS = [(), ('struct',), ('class',), ('union',), ('enum',), ('enum', 'class'), ('enum', 'struct')]
CE_FLAGS = ['const', 'volatile', 'constexpr', 'extern', 'inline', 'static', 'explicit', 'virtual', 'mutable']
CE_NEXT = [';', ';', '{', ':', 'final', 'explicit', 'x', '*', '(', '=', ',', '[[', '}', 'int']
CE_OUT = {0: 'forward', 1: 'friend', 2: 'class', 3: 'enum', 4: 'none'}


def real_class_enum(key, flags, template, is_typedef, is_friend, strs):
    from cxxheaderparser import parserstate as PS
    from harness import decl
    toks = [impl.mk_tok(decl.tok_type(s), s) for s in strs]
    p = impl.parser_over(toks)
    got = []

    class Rec(impl.NullVisitor):
        def on_forward_decl(self, state, f):
            got.append('forward')

        def on_class_friend(self, state, f):
            got.append('friend')
    p.visitor = Rec()
    p._parse_class_decl = lambda *a, **k: got.append('class')
    p._parse_enum_decl = lambda *a, **k: got.append('enum')
    if is_friend:
        cd = T.ClassDecl(T.PQName([T.NameSpecifier('Host')], classkey='struct'))
        p.state = PS.ClassBlockState(p.state, impl.L.Location("<list>", 1), cd, 'public', False, PS.ParsedTypeModifiers({}, {}, {}))
    vars_, both, meths = {}, {}, {}
    for f in flags:
        t = impl.mk_tok(f, f)
        if f == 'mutable':
            vars_[f] = t
        elif f in ('explicit', 'virtual'):
            meths[f] = t
        elif f in ('constexpr', 'extern', 'inline', 'static'):
            both[f] = t
    mods = PS.ParsedTypeModifiers(vars_, both, meths)
    pt = T.Type(T.PQName([T.NameSpecifier('X')], classkey=' '.join(key) or None), const='const' in flags, volatile='volatile' in flags)
    tmpl = T.TemplateDecl([T.TemplateTypeParam('typename', 'T')]) if template else None
    try:
        r = p._maybe_parse_class_enum_decl(pt, mods, None, tmpl, is_typedef, is_friend, impl.L.Location("<list>", 1))
    except (impl.CxxParseError, EOFError):
        return ('err',)
    except (AssertionError, IndexError, KeyError, AttributeError, TypeError):
        return ('other',)
    if r is False:
        return ('ok', len(p.lex.tokbuf), 'none') if not got else ('other',)
    if len(got) != 1:
        return ('other',)
    return ('ok', len(p.lex.tokbuf), got[0])


def model_class_enum(cases):
    from harness import decl
    lines = []
    for key, flags, template, td, fr, strs in cases:
        names = decl.Names()
        lines.append([100, int(template), int(td), int(fr)] + [int(f in flags) for f in CE_FLAGS] + [len(key)] + [impl.CODE[k] for k in key]
                     + decl.enc_tokens(strs, names))
    res = []
    for o in run_driver(lines):
        res.append(('ok', o[1], CE_OUT[o[2]]) if o[0] == 0 else ('err', o[1]))
    return res


def corr_class_enum(ctx, corr):
    rng = ctx.rng
    cases = []
    # every class key x template x typedef x friend x one specifier (or none) x next token: the whole decision table
    for key in CE_KEYS:
        for template in (False, True):
            for td in (False, True):
                for fr in (False, True):
                    for fl in [()] + [(f,) for f in CE_FLAGS]:
                        for nxt in sorted(set(CE_NEXT)):
                            cases.append((key, fl, template, td, fr, [nxt, 'y', ';']))
    for _ in range(ctx.scale(300, 6000)):
        fl = tuple(f for f in CE_FLAGS if rng.random() < 0.2)
        cases.append((rng.choice(CE_KEYS), fl, rng.random() < 0.3, rng.random() < 0.3, rng.random() < 0.3,
                      [rng.choice(CE_NEXT) for _ in range(rng.choice([0, 1, 2, 3]))]))
    ms = model_class_enum(cases)
    for c, m in zip(cases, ms):
        corr.cases += 1
        r = real_class_enum(*c)
        k = "class-enum:" + (m[2] if m[0] == 'ok' else 'err') + "/" + (r[2] if r[0] == 'ok' else r[0])
        corr.dist[k] = corr.dist.get(k, 0) + 1
        if r[0] == 'other':
            continue
        if (m[0] == 'ok') != (r[0] == 'ok') or (m[0] == 'ok' and m != r):
            corr.disagreements.append(dict(case=dict(kind='corr-classenum', key=list(c[0]), flags=list(c[1]), template=c[2], is_typedef=c[3], is_friend=c[4], tokens=c[5]),
                                           model=str(m), impl=str(r),
                                           what="class/enum dispatch after `%s%s%s%s X` before `%s`: model %s, implementation %s" % (
                                               'template<> ' if c[2] else '', 'typedef ' if c[3] else '', 'friend ' if c[4] else '',
                                               ' '.join(list(c[1]) + list(c[0])), ' '.join(c[5]), m, r)))


# ---------------------------------------------------------------------------
# constructor / destructor detection: extracted ctor_dtor (Parse/CtorDtor.v) vs the head of the real _parse_decl

CD_IDS = {0: '', 1: 'A', 2: 'B', 3: 'C'}


def _cd_seg(sn):
    """None | (tilde, id) -> a PQName segment"""
    if sn is None:
        return T.AnonymousName(7)
    return T.NameSpecifier(('~' if sn[0] else '') + CD_IDS[sn[1]])


def real_ctor_dtor(in_class, is_friend, is_type, cls, segs):
    from cxxheaderparser import parserstate as PS
    from harness import decl
    strs = ([] if is_type else ['*']) + ['(', ')', ';']
    toks = [impl.mk_tok(decl.tok_type(x), x) for x in strs]
    p = impl.parser_over(toks)
    got = []

    def fake_parse_function(mods, dtype, pqname, op, template, doxygen, location, constructor, destructor, *a, **k):
        got.append((constructor, destructor))
        return True
    p._parse_function = fake_parse_function
    if in_class:
        cd = T.ClassDecl(T.PQName([_cd_seg(cls)], classkey='struct'))
        p.state = PS.ClassBlockState(p.state, impl.L.Location("<list>", 1), cd, 'public', False, PS.ParsedTypeModifiers({}, {}, {}))
    pt = T.Type(T.PQName([_cd_seg(x) for x in segs]))
    try:
        p._parse_decl(pt, PS.ParsedTypeModifiers({}, {}, {}), impl.L.Location("<list>", 1), None, None, False, is_friend)
    except (impl.CxxParseError, EOFError, AssertionError, IndexError, AttributeError, TypeError):
        pass
    if not got:
        return 'none'
    c, d = got[0]
    return 'ctor' if c else 'dtor' if d else 'none'


def model_ctor_dtor(cases):
    def enc(sn):
        return [0] if sn is None else [1, int(sn[0]), sn[1]]
    lines = []
    for ic, fr, ty, cls, segs in cases:
        lines.append([102, int(ic), int(fr), int(ty)] + enc(cls) + [len(segs)] + [x for sgm in segs for x in enc(sgm)])
    return [{0: 'none', 1: 'ctor', 2: 'dtor'}[o[1]] if o[0] == 0 else 'err' for o in run_driver(lines)]


def corr_ctor_dtor(ctx, corr):
    import itertools
    names = [None] + [(t, i) for t in (False, True) for i in (0, 1, 2)]
    cases = []
    for ic in (False, True):
        for fr in (False, True):
            for ty in (False, True):
                for cls in names:
                    for n in (1, 2, 3):
                        for segs in itertools.product(names, repeat=n):
                            if n == 3 and segs[0] not in (None, (False, 1)):
                                continue
                            if not ic and cls != (False, 1):
                                continue
                            cases.append((ic, fr, ty, cls, list(segs)))
    ms = model_ctor_dtor(cases)
    for c, m in zip(cases, ms):
        corr.cases += 1
        r = real_ctor_dtor(*c)
        k = "ctor-dtor:" + m + "/" + r
        corr.dist[k] = corr.dist.get(k, 0) + 1
        if m != r:
            corr.disagreements.append(dict(case=dict(kind='corr-ctordtor', in_class=c[0], is_friend=c[1], is_type=c[2],
                                                     cls=c[3], segs=c[4]), model=m, impl=r,
                                           what="constructor/destructor detection (in_class=%s friend=%s plain=%s class=%s name=%s): model %s, implementation %s"
                                                % (c[0], c[1], c[2], c[3], c[4], m, r)))


# ---------------------------------------------------------------------------
# whole member declaration statements (fields and methods mixed, constructors, destructors): extracted member_stmt
# (Parse/MemberStmt.v) vs parse_string of `struct Cls { <statement> };` with a visitor that records members in order

class _MemberRec(impl.SimpleCxxVisitor):
    def __init__(self):
        self.order = []

    def on_class_field(self, state, f):
        self.order.append(('f', f))
        super().on_class_field(state, f)

    def on_class_method(self, state, m):
        self.order.append(('m', m))
        super().on_class_method(state, m)


MS_SPECS = ['constexpr', 'inline', 'static', 'const', 'volatile', 'virtual', 'explicit', 'mutable']
MS_INITS = [None, None, None, ['=', '1'], ['=', 'a', '+', 'f', '(', '1', ',', '2', ')'], ['{', '1', '}'], ['{', '}'], ['=', '{', '1', ',', '2', '}']]
MS_ENDS = [[';'], [';'], ['=', '0', ';'], ['=', 'delete', ';'], ['=', 'default', ';'], ['{', '}'], ['{', 'return', 'x', '[', '0', ']', ';', '}']]
MS_CTOR_ENDS = MS_ENDS[:2] + MS_ENDS[3:] + [[':', 'a', '(', '1', ')', '{', '}'], [':', 'a', '(', '1', ')', ',', 'b', '{', '2', ',', '(', '3', ')', '}', '{', 'f', '(', ')', ';', '}']]
MS_QUALS = [['const'], ['volatile'], ['override'], ['final'], ['&'], ['&&'], ['noexcept'], ['noexcept', '(', 'true', ')'], ['throw', '(', ')'], ['throw', '(', 'int', ')']]


def real_member_stmt(cls, text):
    from harness import decl
    v = _MemberRec()
    try:
        impl.P.CxxParser("<str>", "struct %s { %s };" % (cls, text), v, None).parse()
    except (impl.CxxParseError, AssertionError, RecursionError):
        return ('err',)
    ns = v.data.namespace
    if len(ns.classes) != 1 or ns.variables or ns.functions or ns.typedefs:
        return ('other',)
    c = ns.classes[0]
    if c.classes or c.typedefs or c.enums or c.friends or c.using or c.forward_decls or c.using_alias:
        return ('other',)
    if len(v.order) != len(c.fields) + len(c.methods) or not v.order:
        return ('other',)
    val = lambda x: None if x is None else tuple(t.value for t in x.tokens)
    out = []
    try:
        for kind, o in v.order:
            if o.access != 'public':
                return ('other',)
            if kind == 'f':
                out.append(('field', o.name, decl.from_real(o.type), o.bits, val(o.value), (o.constexpr, o.mutable, o.static, o.inline)))
            else:
                if (o.has_trailing_return or o.msvc_convention or o.operator or o.raw_requires or o.template or len(o.name.segments) != 1
                        or not isinstance(o.name.segments[0], T.NameSpecifier) or o.name.segments[0].specialization):
                    return ('other',)
                ps = []
                for q in o.parameters:
                    if q.default is not None or q.param_pack:
                        return ('other',)
                    ps.append((decl.from_real(q.type), q.name))
                rt = None if o.return_type is None else decl.from_real(o.return_type)
                out.append(('method', o.name.segments[0].name, o.constructor, o.destructor, rt, tuple(ps), o.vararg,
                            (o.const, o.volatile, o.override, o.final, {None: 0, '&': 1, '&&': 2}[o.ref_qualifier], val(o.throw), val(o.noexcept),
                             o.pure_virtual, o.deleted, o.default, o.has_body),
                            (o.constexpr, o.extern, o.inline, o.static, o.explicit, o.virtual)))
    except decl.Unrepresentable:
        return ('other',)
    return ('ok', out)


def gen_member_stmt(rng, cls):
    from harness import decl
    r = rng.random()
    pre = [rng.choice(MS_SPECS) for _ in range(rng.choice([0, 0, 1, 2]))]
    if r < 0.25:
        # constructor / destructor
        dtor = rng.random() < 0.4
        ps = []
        if not dtor:
            for j in range(rng.choice([0, 1, 1, 2])):
                while True:
                    q = decl.rand_type(rng, rng.choice([0, 1, 2]))
                    if decl.var_ok(q):
                        break
                ps.append((q, rng.choice([None, 'a%d' % j])))
        toks = pre + [('~' if dtor else '') + cls, '('] + decl.print_params(tuple(ps), False) + [')']
        for _ in range(rng.choice([0, 0, 1, 2])):
            toks += rng.choice(MS_QUALS)
        toks += list(rng.choice(MS_ENDS if dtor else MS_CTOR_ENDS))
        return toks, 1
    # (fundamental type names, one or several keywords: Parse/Declarator.v fund_code)
    base = ('B', rng.choice(['Foo', 'Bar', 'T', cls, 'int', 'unsigned long', 'bool', 'long long', 'char']), False, False)
    toks = pre + base[1].split()
    n = rng.choice([1, 1, 2, 3])
    last_m = False
    for i in range(n):
        if i:
            toks.append(',')
        if rng.random() < 0.5:
            while True:
                rt = _rebase(decl.rand_type(rng, rng.choice([0, 0, 1, 2, 3])), base)
                if decl.kind(rt) in 'BR' and rt[0] != 'F':
                    ps = []
                    for j in range(rng.choice([0, 1, 1, 2])):
                        while True:
                            q = decl.rand_type(rng, rng.choice([0, 1, 2]))
                            if decl.var_ok(q):
                                break
                        ps.append((q, rng.choice([None, 'a%d' % j])))
                    t = ('F', rt, tuple(ps), rng.random() < 0.15)
                    if decl.legal(t):
                        break
            toks += decl.print_layers(decl.layers(t)[1], ['m%d' % i])
            for _ in range(rng.choice([0, 0, 1, 2, 3])):
                toks += rng.choice(MS_QUALS)
            last_m = True
        else:
            while True:
                t = _rebase(decl.rand_type(rng, rng.choice([0, 1, 2, 4])), base)
                if decl.legal(t) and decl.var_ok(t):
                    break
            toks += decl.print_layers(decl.layers(t)[1], ['f%d' % i])
            if rng.random() < 0.2 and t[0] == 'B':
                toks += [':', rng.choice(['1', '3', '12'])]
            init = rng.choice(MS_INITS)
            if init:
                toks += init
            last_m = False
    toks += list(rng.choice(MS_ENDS)) if last_m else [';']
    return toks, n


def corr_member_stmts(ctx, corr):
    from harness import decl
    from harness.props import c02
    rng = ctx.rng
    cases = []
    for _ in range(ctx.scale(1200, 24000)):
        cls = rng.choice(['Cls', 'S_', 'Foo'])
        toks, n = gen_member_stmt(rng, cls)
        cases.append((cls, toks, n))
        if rng.random() < 0.35:
            mt = [t for t in c02.mutate(rng, toks) if t not in ('}',)] or [';']
            cases.append((cls, mt, mt.count(',') + 1))
    lines, nms = [], []
    for cls, toks, n in cases:
        names = decl.Names()
        lines.append([108, n, names.id(cls), names.id('~' + cls)] + decl.enc_tokens(toks + ['}', ';'], names))
        nms.append(names)
    outs = run_driver(lines)
    for (cls, toks, n), o, names in zip(cases, outs, nms):
        corr.cases += 1
        if o[0] == 0:
            rest, k = o[1], o[2]
            fl = [bool(x) for x in o[3:12]]       # const volatile constexpr extern inline static explicit virtual mutable
            i = 12

            def opt(i):
                if o[i] == 0:
                    return None, i + 1
                cnt = o[i + 1]
                vals = tuple(names.rev[o[i + 2 + 2 * q + 1]] if o[i + 2 + 2 * q + 1] else impl.TT[o[i + 2 + 2 * q]] for q in range(cnt))
                return vals, i + 2 + 2 * cnt
            items = []
            for _ in range(k):
                if o[i] == 0:
                    nm = None if o[i + 1] == 0 else names.rev.get(o[i + 1] - 1, '?')
                    ln = o[i + 2]
                    t, _j = decl.dec_type(o, i + 3, names)
                    i = i + 3 + ln
                    if o[i] == 0:
                        bits, i = None, i + 1
                    else:
                        bits, i = int(names.rev[o[i + 1]]), i + 2
                    val, i = opt(i)
                    items.append(('field', nm, t, bits, val, (fl[2], fl[8], fl[5], fl[4])))
                else:
                    nm, ctor, dtor, has_rt, ln = names.rev.get(o[i + 1], '?'), bool(o[i + 2]), bool(o[i + 3]), bool(o[i + 4]), o[i + 5]
                    t, _j = decl.dec_type(o, i + 6, names)
                    i = i + 6 + ln
                    q5 = (bool(o[i]), bool(o[i + 1]), bool(o[i + 2]), bool(o[i + 3]), o[i + 4])
                    i += 5
                    th, i = opt(i)
                    ne, i = opt(i)
                    q = q5 + (th, ne, bool(o[i]), bool(o[i + 1]), bool(o[i + 2]), bool(o[i + 3]))
                    i += 4
                    items.append(('method', nm, ctor, dtor, t[1] if has_rt else None, t[2], t[3], q, (fl[2], fl[3], fl[4], fl[5], fl[6], fl[7])))
            m = ('ok', items, rest)
        else:
            m = ('err', o[1])
        r = real_member_stmt(cls, ' '.join(toks))
        key = "memberstmt:" + (m[0] if m[0] == 'ok' else 'err%d' % m[1]) + "/" + r[0]
        corr.dist[key] = corr.dist.get(key, 0) + 1
        msg = None
        if m[0] == 'ok' and m[2] == 2:
            if r[0] == 'err':
                msg = "model decodes the statement but the implementation rejects it"
            elif r[0] == 'ok' and r[1] != m[1]:
                msg = "model %s; implementation %s" % (m[1], r[1])
        elif m[0] == 'err' and m[1] in (1, 2, 3) and r[0] == 'ok' and not decl.final_as_name(toks):
            msg = "model rejects (code %d) but the implementation reports %s" % (m[1], r[1])
        elif m[0] == 'err' and m[1] == 9:
            msg = "model ran out of fuel"
        if msg:
            corr.disagreements.append(dict(case=dict(kind='corr-memberstmt', cls=cls, tokens=toks, n=n), model=str(m)[:500], impl=str(r)[:500],
                                           what="member statement `%s` in struct %s: %s" % (' '.join(toks), cls, msg)))


# ---------------------------------------------------------------------------
# operator names: extracted op_name (Parse/OpName.v) vs the real _parse_pqname_name_operator

OP_SPELLINGS = [['=', '='], ['+'], ['-', '>'], ['(', ')'], ['[', ']'], ['<', '<'], ['<<'], ['new'], ['new', '[', ']'], ['delete'], ['!'], ['+', '='], ['<', '=', '>'],
                ['&&'], ['||'], [','], ['~'], ['->'], ['*'], ['%', '='], ['"', '"', '_x'], ['co_await'], ['(', ')', '<', 'int', '>'], ['bool'], ['(']]
OP_FOLLOW = [['(', 'int', 'a', ')', ';'], [';', 'int', 'x', ';'], ['(', ')', 'const', '{', '}'], [], ['<', 'int', '>', '(', 'int', ')', ';'], [')', ';']]


def real_op_name(strs):
    from harness import decl
    toks = [impl.mk_tok(decl.tok_type(s), s) for s in strs]
    p = impl.parser_over(toks)
    try:
        parts = p._parse_pqname_name_operator()
    except (impl.CxxParseError, EOFError):
        return ('err',)
    except (AssertionError, IndexError, KeyError, AttributeError, TypeError):
        return ('other',)
    return ('ok', tuple(t.value for t in parts), len(p.lex.tokbuf))


def corr_op_names(ctx, corr):
    from harness import decl
    from harness.props import c02
    rng = ctx.rng
    cases = []
    for _ in range(ctx.scale(600, 12000)):
        toks = [t for t in rng.choice(OP_SPELLINGS) if t != '"'] + list(rng.choice(OP_FOLLOW))
        cases.append(toks)
        if rng.random() < 0.3:
            cases.append(c02.mutate(rng, toks))
    lines, nms = [], []
    for toks in cases:
        names = decl.Names()
        lines.append([110] + decl.enc_tokens(toks, names))
        nms.append(names)
    for toks, o, names in zip(cases, run_driver(lines), nms):
        corr.cases += 1
        if o[0] == 0:
            n = o[2]
            m = ('ok', tuple(names.rev[o[3 + 2 * j + 1]] if o[3 + 2 * j + 1] else impl.TT[o[3 + 2 * j]] for j in range(n)), o[1])
        else:
            m = ('err', o[1])
        r = real_op_name(toks)
        k = "opname:" + (m[0] if m[0] == 'ok' else 'err%d' % m[1]) + "/" + r[0]
        corr.dist[k] = corr.dist.get(k, 0) + 1
        msg = None
        if r[0] != 'other':
            if (m[0] == 'ok') != (r[0] == 'ok'):
                msg = "model %s, implementation %s" % (m[:2], r[:2])
            elif m[0] == 'ok' and m != r:
                msg = "model %s, implementation %s" % (m, r)
        if msg:
            corr.disagreements.append(dict(case=dict(kind='corr-opname', tokens=toks), model=str(m)[:300], impl=str(r)[:300],
                                           what="operator %s: %s" % (' '.join(toks), msg)))


# ---------------------------------------------------------------------------
# what follows the closing brace of a class / enum definition: extracted finish_class (Parse/FinishClass.v) vs the real
# _finish_class_or_enum on the same token lists with a recording visitor

class _FinRec(impl.NullVisitor):
    def __init__(self):
        self.order = []

    def on_variable(self, state, v):
        self.order.append(('var', v))

    def on_function(self, state, f):
        self.order.append(('fn', f))

    def on_typedef(self, state, t):
        self.order.append(('typedef', t))

    def on_class_field(self, state, f):
        self.order.append(('field', f))

    def on_class_method(self, state, m):
        self.order.append(('method', m))


FIN_MODS = [(), (), ('static',), ('constexpr',), ('inline',), ('extern',), ('mutable',), ('static', 'inline')]


def real_finish(strs, in_class, td, anon, key, mods, c, v):
    from cxxheaderparser import parserstate as PS
    from harness import decl
    toks = [impl.mk_tok(decl.tok_type(x), x) for x in strs]
    p = impl.parser_over(toks)
    rec = _FinRec()
    p.visitor = rec
    if in_class:
        cd = T.ClassDecl(T.PQName([T.NameSpecifier('Outer')], classkey='struct'))
        p.state = PS.ClassBlockState(p.state, impl.L.Location("<list>", 1), cd, 'public', False, PS.ParsedTypeModifiers({}, {}, {}))
    name = T.PQName([T.AnonymousName(7) if anon else T.NameSpecifier('Cn')], classkey=key)
    both = {k: impl.mk_tok(k, k) for k in mods if k in ('constexpr', 'extern', 'inline', 'static')}
    vars_ = {k: impl.mk_tok(k, k) for k in mods if k == 'mutable'}
    pm = PS.ParsedTypeModifiers(vars_, both, {})
    try:
        p._finish_class_or_enum(name, td, pm, key, impl.L.Location("<list>", 1), c, v)
    except (impl.CxxParseError, EOFError):
        return ('err',)
    except (AssertionError, IndexError, KeyError, AttributeError, TypeError, RecursionError):
        return ('err',)          # (constructing a dataclass with a flag it does not have: parse() reports these as parse errors)
    name.segments[-1] = T.NameSpecifier('Cn')       # every declarator is built on this one name object
    name.classkey = None
    val = lambda x: None if x is None else tuple(t.value for t in x.tokens)
    out = []
    try:
        for kind, o in rec.order:
            if kind == 'var':
                if o.template or len(o.name.segments) != 1:
                    return ('other',)
                out.append(('var', o.name.segments[0].name, decl.from_real(o.type), val(o.value), (o.constexpr, o.extern, o.inline, o.static)))
            elif kind == 'typedef':
                if isinstance(o.type, T.FunctionType):
                    ft = o.type
                    ps = tuple((decl.from_real(q.type), q.name) for q in ft.parameters)
                    if ft.has_trailing_return or ft.msvc_convention or any(q.default is not None or q.param_pack for q in ft.parameters):
                        return ('other',)
                    out.append(('tdfn', o.name, ('F', decl.from_real(ft.return_type), ps, ft.vararg)))
                else:
                    out.append(('td', o.name, decl.from_real(o.type)))
            elif kind == 'field':
                out.append(('field', o.name, decl.from_real(o.type), o.bits, val(o.value), (o.constexpr, o.mutable, o.static, o.inline)))
            else:
                if (o.has_trailing_return or o.msvc_convention or o.operator or o.raw_requires or o.template or len(o.name.segments) != 1
                        or any(q.default is not None or q.param_pack for q in o.parameters)):
                    return ('other',)
                ps = tuple((decl.from_real(q.type), q.name) for q in o.parameters)
                rt = None if o.return_type is None else decl.from_real(o.return_type)
                if kind == 'fn':
                    out.append(('fn', o.name.segments[0].name, ('F', rt, ps, o.vararg), val(o.throw), val(o.noexcept), o.has_body, o.deleted,
                                (o.constexpr, o.extern, o.inline, o.static)))
                else:
                    out.append(('method', o.name.segments[0].name, o.constructor, o.destructor, rt, ps, o.vararg,
                                (o.const, o.volatile, o.override, o.final, {None: 0, '&': 1, '&&': 2}[o.ref_qualifier], val(o.throw), val(o.noexcept),
                                 o.pure_virtual, o.deleted, o.default, o.has_body), (o.constexpr, o.extern, o.inline, o.static, o.explicit, o.virtual)))
    except decl.Unrepresentable:
        return ('other',)
    return ('ok', out, len(p.lex.tokbuf))


def corr_finish(ctx, corr):
    from harness import decl
    from harness.props import c01, c02
    rng = ctx.rng
    cases = []
    for _ in range(ctx.scale(1000, 20000)):
        in_class = rng.random() < 0.4
        td = (not in_class) and rng.random() < 0.3
        anon = rng.random() < 0.5
        key = rng.choice(['struct', 'union', 'class', 'enum'])
        mods = () if td else rng.choice(FIN_MODS)
        c, v = rng.random() < 0.25, rng.random() < 0.1
        r = rng.random()
        if r < 0.15:
            toks, n = [';'], 1
        elif in_class:
            toks, n = gen_member_stmt(rng, 'Outer')
            while toks and toks[0] in MS_SPECS or toks[0] in ('Outer', '~Outer'):
                toks, n = gen_member_stmt(rng, 'Outer')
            toks = toks[1:]                  # drop the base type name: the definition is the type
        else:
            toks, n = c01.gen_mixed_stmt(rng, typedef=td)
            while toks[0] in ('constexpr', 'extern', 'inline', 'static', 'const', 'volatile'):
                toks = toks[1:]
            toks = toks[1:]
            while toks and toks[0] in ('const', 'volatile', 'static'):
                toks = toks[1:]
        toks = toks + rng.choice([[], ['int', 'z', ';'], ['}']])
        cases.append((toks, n, in_class, td, anon, key, mods, c, v))
        if rng.random() < 0.25:
            cases.append((c02.mutate(rng, toks) or [';'], n + 1, in_class, td, anon, key, mods, c, v))
    lines, nms = [], []
    for toks, n, ic, td, anon, key, mods, c, v in cases:
        names = decl.Names()
        fl = [int(c), int(v), int('constexpr' in mods), int('extern' in mods), int('inline' in mods), int('static' in mods), 0, 0, int('mutable' in mods)]
        lines.append([112, n + 1, int(ic), int(td), int(anon), int(key in ('struct', 'union')), names.id('Outer'), names.id('~Outer'), names.id('Cn'),
                      int(c), int(v)] + fl + decl.enc_tokens(toks, names))
        nms.append(names)
    outs = run_driver(lines)
    for (toks, n, ic, td, anon, key, mods, c, v), o, names in zip(cases, outs, nms):
        corr.cases += 1
        fl6 = ('constexpr' in mods, 'extern' in mods, 'inline' in mods, 'static' in mods)

        def opt(i):
            if o[i] == 0:
                return None, i + 1
            cnt = o[i + 1]
            vals = tuple(names.rev[o[i + 2 + 2 * q + 1]] if o[i + 2 + 2 * q + 1] else impl.TT[o[i + 2 + 2 * q]] for q in range(cnt))
            return vals, i + 2 + 2 * cnt
        if o[0] == 0:
            rest, kind, k = o[1], o[2], o[3]
            i = 4
            items = []
            if kind == 1:
                items = [('field', None, ('B', 'Cn', False, False), None, None, (False, False, False, False))]
            for _ in range(k):
                if kind == 2:
                    ek, nm, ln = o[i], names.rev.get(o[i + 1], '?'), o[i + 2]
                    t, _j = decl.dec_type(o, i + 3, names)
                    i = i + 3 + ln
                    if ek == 0:
                        val, i = opt(i)
                        items.append(('td', nm, t) if td else ('var', nm, t, val, fl6))
                    else:
                        th, i = opt(i)
                        ne, i = opt(i)
                        items.append(('tdfn', nm, t) if td else ('fn', nm, t, th, ne, bool(o[i]), bool(o[i + 1]), fl6))
                        i += 2
                else:
                    if o[i] == 0:
                        nm = None if o[i + 1] == 0 else names.rev.get(o[i + 1] - 1, '?')
                        ln = o[i + 2]
                        t, _j = decl.dec_type(o, i + 3, names)
                        i = i + 3 + ln
                        if o[i] == 0:
                            bits, i = None, i + 1
                        else:
                            bits, i = int(names.rev[o[i + 1]]), i + 2
                        val, i = opt(i)
                        items.append(('field', nm, t, bits, val, ('constexpr' in mods, 'mutable' in mods, 'static' in mods, 'inline' in mods)))
                    else:
                        nm, ctor, dtor, has_rt, ln = names.rev.get(o[i + 1], '?'), bool(o[i + 2]), bool(o[i + 3]), bool(o[i + 4]), o[i + 5]
                        t, _j = decl.dec_type(o, i + 6, names)
                        i = i + 6 + ln
                        q5 = (bool(o[i]), bool(o[i + 1]), bool(o[i + 2]), bool(o[i + 3]), o[i + 4])
                        i += 5
                        th, i = opt(i)
                        ne, i = opt(i)
                        q = q5 + (th, ne, bool(o[i]), bool(o[i + 1]), bool(o[i + 2]), bool(o[i + 3]))
                        i += 4
                        items.append(('method', nm, ctor, dtor, t[1] if has_rt else None, t[2], t[3], q, fl6 + (False, False)))
            m = ('ok', items, rest)
        else:
            m = ('err', o[1])
        r = real_finish(toks, ic, td, anon, key, mods, c, v)
        k_ = "finish:" + (m[0] if m[0] == 'ok' else 'err%d' % m[1]) + "/" + r[0]
        corr.dist[k_] = corr.dist.get(k_, 0) + 1
        msg = None
        if r[0] != 'other' and not (m[0] == 'err' and m[1] == 4) and not (m[0] == 'err' and decl.final_as_name(toks)):
            if m[0] == 'err' and m[1] == 9:
                msg = "model ran out of fuel"
            elif (m[0] == 'ok') != (r[0] == 'ok'):
                msg = "model %s, implementation %s" % (m[:2], r[:2])
            elif m[0] == 'ok' and m != r:
                msg = "model %s, implementation %s" % (m, r)
        if msg:
            corr.disagreements.append(dict(case=dict(kind='corr-finish', tokens=toks, n=n, in_class=ic, typedef=td, anon=anon, key=key, mods=list(mods), const=c, volatile=v),
                                           model=str(m)[:500], impl=str(r)[:500],
                                           what="behind the closing brace of a %s%s definition (%s%s): `%s`: %s" % ('anonymous ' if anon else '', key, 'class' if ic else 'namespace',
                                                                                                                  ', typedef' if td else '', ' '.join(toks), msg)))


# ---------------------------------------------------------------------------
# conversion operators: extracted conv_stmt (Parse/ConvOp.v) vs parse_string of `struct S_ { <statement> };`

def real_conv(text):
    from harness import decl
    try:
        d = impl.parse_string('struct S_ { %s };' % text)
    except (impl.CxxParseError, AssertionError, RecursionError):
        return ('err',)
    ns = d.namespace
    if len(ns.classes) != 1:
        return ('other',)
    c = ns.classes[0]
    if len(c.methods) != 1 or c.fields or c.classes or c.typedefs or c.using or c.friends:
        return ('other',)
    o = c.methods[0]
    if o.operator != 'conversion' or o.has_trailing_return or o.raw_requires or o.template or o.msvc_convention:
        return ('other',)
    val = lambda x: None if x is None else tuple(t.value for t in x.tokens)
    try:
        ps = tuple((decl.from_real(q.type), q.name) for q in o.parameters)
        if any(q.default is not None or q.param_pack for q in o.parameters):
            return ('other',)
        t = ('F', decl.from_real(o.return_type), ps, o.vararg)
    except decl.Unrepresentable:
        return ('other',)
    return ('ok', (o.constexpr, o.extern, o.inline, o.static, o.explicit, o.virtual), t,
            (o.const, o.volatile, o.override, o.final, {None: 0, '&': 1, '&&': 2}[o.ref_qualifier], val(o.throw), val(o.noexcept),
             o.pure_virtual, o.deleted, o.default, o.has_body))


def corr_conv_ops(ctx, corr):
    from harness import decl
    from harness.props import c02
    rng = ctx.rng
    cases = []
    for _ in range(ctx.scale(700, 14000)):
        pre = [rng.choice(['explicit', 'constexpr', 'virtual', 'inline', 'static', 'mutable']) for _ in range(rng.choice([0, 0, 1, 2]))]
        ty = rng.choice([[], ['const'], ['volatile']]) + [rng.choice(['Foo', 'T', 'bool_t', 'Bar'])] + rng.choice([[], [], ['const']])
        for _ in range(rng.choice([0, 0, 1, 2])):
            ty += rng.choice([['*'], ['*', 'const'], ['&'], ['&&'], ['*', 'volatile']])
        toks = pre + ['operator'] + ty + ['(', ')']
        for _ in range(rng.choice([0, 1, 1, 2])):
            toks += rng.choice(MS_QUALS)
        toks += list(rng.choice(MS_ENDS))
        cases.append(toks)
        if rng.random() < 0.3:
            cases.append([t for t in c02.mutate(rng, toks) if t != '}'] or [';'])
    lines, nms = [], []
    for toks in cases:
        names = decl.Names()
        lines.append([113] + decl.enc_tokens(toks + ['}', ';'], names))
        nms.append(names)
    for toks, o, names in zip(cases, run_driver(lines), nms):
        corr.cases += 1
        if o[0] == 0:
            fl = [bool(x) for x in o[2:11]]
            ln = o[11]
            t, _j = decl.dec_type(o, 12, names)
            i = 12 + ln

            def opt(i):
                if o[i] == 0:
                    return None, i + 1
                cnt = o[i + 1]
                vals = tuple(names.rev[o[i + 2 + 2 * q + 1]] if o[i + 2 + 2 * q + 1] else impl.TT[o[i + 2 + 2 * q]] for q in range(cnt))
                return vals, i + 2 + 2 * cnt
            q5 = (bool(o[i]), bool(o[i + 1]), bool(o[i + 2]), bool(o[i + 3]), o[i + 4])
            i += 5
            th, i = opt(i)
            ne, i = opt(i)
            q = q5 + (th, ne, bool(o[i]), bool(o[i + 1]), bool(o[i + 2]), bool(o[i + 3]))
            m = ('ok', (fl[2], fl[3], fl[4], fl[5], fl[6], fl[7]), t, q, o[1])
        else:
            m = ('err', o[1])
        r = real_conv(' '.join(toks))
        k = "convop:" + (m[0] if m[0] == 'ok' else 'err%d' % m[1]) + "/" + r[0]
        corr.dist[k] = corr.dist.get(k, 0) + 1
        msg = None
        if m[0] == 'ok' and m[4] == 2:
            if r[0] == 'err':
                msg = "model decodes the conversion operator but the implementation rejects it"
            elif r[0] == 'ok' and r[1:] != m[1:4]:
                msg = "model %s; implementation %s" % (m[1:4], r[1:])
        elif m[0] == 'err' and m[1] in (1, 2, 3) and r[0] == 'ok' and not decl.final_as_name(toks):
            msg = "model rejects (code %d) but the implementation reports %s" % (m[1], r[1:])
        elif m[0] == 'err' and m[1] == 9:
            msg = "model ran out of fuel"
        if msg:
            corr.disagreements.append(dict(case=dict(kind='corr-convop', tokens=toks), model=str(m)[:400], impl=str(r)[:400],
                                           what="conversion operator `%s`: %s" % (' '.join(toks), msg)))


# ---------------------------------------------------------------------------
# overloaded operators as members: extracted op_member_stmt (Parse/OperatorMember.v) vs parse_string of `struct S_ { ... };`

OPM_OPS = [['=', '='], ['='], ['+'], ['-', '>'], ['->'], ['(', ')'], ['[', ']'], ['<', '<'], ['<<'], ['<'], ['>'], ['<', '='], ['!'], ['+', '='], ['*'], ['&'],
           ['&&'], ['||'], [','], ['~'], ['%', '='], ['new'], ['new', '[', ']'], ['delete'], ['<', '=', '>'], ['^'], ['|'], ['/'], ['-', '-'], ['+', '+']]


def real_op_member(text):
    from harness import decl
    try:
        d = impl.parse_string('struct S_ { %s };' % text)
    except (impl.CxxParseError, AssertionError, RecursionError):
        return ('err',)
    ns = d.namespace
    if len(ns.classes) != 1:
        return ('other',)
    c = ns.classes[0]
    if len(c.methods) != 1 or c.fields or c.classes or c.typedefs or c.using or c.friends:
        return ('other',)
    o = c.methods[0]
    if not o.operator or o.operator == 'conversion' or o.has_trailing_return or o.raw_requires or o.template or o.msvc_convention or len(o.name.segments) != 1:
        return ('other',)
    if o.name.segments[0].name != 'operator' + o.operator or o.name.segments[0].specialization:
        return ('other',)
    val = lambda x: None if x is None else tuple(t.value for t in x.tokens)
    try:
        ps = tuple((decl.from_real(q.type), q.name) for q in o.parameters)
        if any(q.default is not None or q.param_pack for q in o.parameters):
            return ('other',)
        t = ('F', decl.from_real(o.return_type), ps, o.vararg)
    except decl.Unrepresentable:
        return ('other',)
    return ('ok', (o.constexpr, o.extern, o.inline, o.static, o.explicit, o.virtual), o.operator, t,
            (o.const, o.volatile, o.override, o.final, {None: 0, '&': 1, '&&': 2}[o.ref_qualifier], val(o.throw), val(o.noexcept),
             o.pure_virtual, o.deleted, o.default, o.has_body))


def corr_op_members(ctx, corr):
    from harness import decl
    from harness.props import c02
    rng = ctx.rng
    cases = []
    for _ in range(ctx.scale(800, 16000)):
        pre = [rng.choice(['constexpr', 'virtual', 'inline', 'static', 'explicit', 'const']) for _ in range(rng.choice([0, 0, 1, 2]))]
        ty = [rng.choice(['Foo', 'T', 'bool_t', 'Bar', 'void'])]
        for _ in range(rng.choice([0, 0, 1, 2])):
            ty += rng.choice([['*'], ['*', 'const'], ['&'], ['&&']])
        ps = []
        for j in range(rng.choice([0, 1, 1, 2])):
            while True:
                q = decl.rand_type(rng, rng.choice([0, 1, 2]))
                if decl.var_ok(q):
                    break
            ps.append((q, rng.choice([None, 'a%d' % j])))
        toks = pre + ty + ['operator'] + list(rng.choice(OPM_OPS)) + ['('] + decl.print_params(tuple(ps), False) + [')']
        for _ in range(rng.choice([0, 1, 1, 2])):
            toks += rng.choice(MS_QUALS)
        toks += list(rng.choice(MS_ENDS))
        cases.append(toks)
        if rng.random() < 0.3:
            cases.append([t for t in c02.mutate(rng, toks) if t != '}'] or [';'])
    lines, nms = [], []
    for toks in cases:
        names = decl.Names()
        lines.append([114] + decl.enc_tokens(toks + ['}', ';'], names))
        nms.append(names)
    for toks, o, names in zip(cases, run_driver(lines), nms):
        corr.cases += 1
        if o[0] == 0:
            fl = [bool(x) for x in o[2:11]]
            nop = o[11]
            op = ''.join(names.rev[o[12 + 2 * j + 1]] if o[12 + 2 * j + 1] else impl.TT[o[12 + 2 * j]] for j in range(nop))
            i = 12 + 2 * nop
            ln = o[i]
            t, _j = decl.dec_type(o, i + 1, names)
            i = i + 1 + ln

            def opt(i):
                if o[i] == 0:
                    return None, i + 1
                cnt = o[i + 1]
                vals = tuple(names.rev[o[i + 2 + 2 * q + 1]] if o[i + 2 + 2 * q + 1] else impl.TT[o[i + 2 + 2 * q]] for q in range(cnt))
                return vals, i + 2 + 2 * cnt
            q5 = (bool(o[i]), bool(o[i + 1]), bool(o[i + 2]), bool(o[i + 3]), o[i + 4])
            i += 5
            th, i = opt(i)
            ne, i = opt(i)
            q = q5 + (th, ne, bool(o[i]), bool(o[i + 1]), bool(o[i + 2]), bool(o[i + 3]))
            m = ('ok', (fl[2], fl[3], fl[4], fl[5], fl[6], fl[7]), op, t, q, o[1])
        else:
            m = ('err', o[1])
        r = real_op_member(' '.join(toks))
        k = "opmember:" + (m[0] if m[0] == 'ok' else 'err%d' % m[1]) + "/" + r[0]
        corr.dist[k] = corr.dist.get(k, 0) + 1
        msg = None
        if m[0] == 'ok' and m[5] == 2:
            if r[0] == 'err':
                msg = "model decodes the operator member but the implementation rejects it"
            elif r[0] == 'ok' and r[1:] != m[1:5]:
                msg = "model %s; implementation %s" % (m[1:5], r[1:])
        elif m[0] == 'err' and m[1] in (1, 2, 3) and r[0] == 'ok' and not decl.final_as_name(toks):
            msg = "model rejects (code %d) but the implementation reports %s" % (m[1], r[1:])
        elif m[0] == 'err' and m[1] == 9:
            msg = "model ran out of fuel"
        if msg:
            corr.disagreements.append(dict(case=dict(kind='corr-opmember', tokens=toks), model=str(m)[:400], impl=str(r)[:400],
                                           what="operator member `%s`: %s" % (' '.join(toks), msg)))


# ---------------------------------------------------------------------------
# friend declarations: extracted friend_stmt (Parse/FriendStmt.v) vs parse_string of `struct S_ { friend ... };`

def real_friend(text):
    from harness import decl
    try:
        d = impl.parse_string('struct S_ { friend %s };' % text)
    except (impl.CxxParseError, AssertionError, RecursionError):
        return ('err',)
    ns = d.namespace
    if len(ns.classes) != 1:
        return ('other',)
    c = ns.classes[0]
    if len(c.friends) != 1 or c.fields or c.classes or c.typedefs or c.using or c.methods:
        return ('other',)
    fr = c.friends[0]
    if fr.cls is not None:
        q = fr.cls.typename
        if fr.cls.template or q.classkey or len(q.segments) != 1 or not isinstance(q.segments[0], T.NameSpecifier) or q.segments[0].specialization:
            return ('other',)
        return ('ok', 'type', q.segments[0].name)
    o = fr.fn
    if (o.operator or o.has_trailing_return or o.raw_requires or o.template or o.msvc_convention or len(o.name.segments) != 1
            or not isinstance(o.name.segments[0], T.NameSpecifier) or o.name.segments[0].specialization or o.constructor or o.destructor):
        return ('other',)
    val = lambda x: None if x is None else tuple(t.value for t in x.tokens)
    try:
        ps = tuple((decl.from_real(q.type), q.name) for q in o.parameters)
        if any(q.default is not None or q.param_pack for q in o.parameters):
            return ('other',)
        t = ('F', decl.from_real(o.return_type), ps, o.vararg)
    except decl.Unrepresentable:
        return ('other',)
    return ('ok', 'fn', o.name.segments[0].name, (o.constexpr, o.extern, o.inline, o.static, o.explicit, o.virtual), t,
            (o.const, o.volatile, o.override, o.final, {None: 0, '&': 1, '&&': 2}[o.ref_qualifier], val(o.throw), val(o.noexcept),
             o.pure_virtual, o.deleted, o.default, o.has_body))


def corr_friends(ctx, corr):
    from harness import decl
    from harness.props import c02
    rng = ctx.rng
    cases = []
    for _ in range(ctx.scale(700, 14000)):
        pre = [rng.choice(['constexpr', 'inline', 'static', 'const', 'virtual']) for _ in range(rng.choice([0, 0, 0, 1, 2]))]
        ty = [rng.choice(['Foo', 'T', 'bool_t', 'Bar', 'void'])]
        if rng.random() < 0.25:
            toks = pre + ty + [';']
        else:
            for _ in range(rng.choice([0, 0, 1, 2])):
                ty += rng.choice([['*'], ['*', 'const'], ['&'], ['&&']])
            ps = []
            for j in range(rng.choice([0, 1, 1, 2])):
                while True:
                    q = decl.rand_type(rng, rng.choice([0, 1, 2]))
                    if decl.var_ok(q):
                        break
                ps.append((q, rng.choice([None, 'a%d' % j])))
            toks = pre + ty + [rng.choice(['ff', 'swap', 'get'])] + ['('] + decl.print_params(tuple(ps), False) + [')']
            for _ in range(rng.choice([0, 0, 1])):
                toks += rng.choice(MS_QUALS)
            toks += list(rng.choice(MS_ENDS))
        cases.append(toks)
        if rng.random() < 0.3:
            cases.append([t for t in c02.mutate(rng, toks) if t != '}'] or [';'])
    lines, nms = [], []
    for toks in cases:
        names = decl.Names()
        lines.append([118] + decl.enc_tokens(toks + ['}', ';'], names))
        nms.append(names)
    for toks, o, names in zip(cases, run_driver(lines), nms):
        corr.cases += 1
        if o[0] == 0:
            fl = [bool(x) for x in o[2:11]]
            if o[11] == 0:
                m = ('ok', 'type', names.rev.get(o[12], 'void' if o[12] == 0 else '?'), o[1])
            else:
                nm = names.rev.get(o[12], '?')
                ln = o[13]
                t, _j = decl.dec_type(o, 14, names)
                i = 14 + ln

                def opt(i):
                    if o[i] == 0:
                        return None, i + 1
                    cnt = o[i + 1]
                    vals = tuple(names.rev[o[i + 2 + 2 * q + 1]] if o[i + 2 + 2 * q + 1] else impl.TT[o[i + 2 + 2 * q]] for q in range(cnt))
                    return vals, i + 2 + 2 * cnt
                q5 = (bool(o[i]), bool(o[i + 1]), bool(o[i + 2]), bool(o[i + 3]), o[i + 4])
                i += 5
                th, i = opt(i)
                ne, i = opt(i)
                q = q5 + (th, ne, bool(o[i]), bool(o[i + 1]), bool(o[i + 2]), bool(o[i + 3]))
                m = ('ok', 'fn', nm, (fl[2], fl[3], fl[4], fl[5], fl[6], fl[7]), t, q, o[1])
        else:
            m = ('err', o[1])
        r = real_friend(' '.join(toks))
        k = "friend:" + (m[0] if m[0] == 'ok' else 'err%d' % m[1]) + "/" + r[0]
        corr.dist[k] = corr.dist.get(k, 0) + 1
        msg = None
        if m[0] == 'ok' and m[-1] == 2:
            if r[0] == 'err':
                msg = "model decodes the friend declaration but the implementation rejects it"
            elif r[0] == 'ok' and tuple(r[1:]) != tuple(m[1:-1]):
                msg = "model %s; implementation %s" % (m[1:-1], r[1:])
        elif m[0] == 'err' and m[1] in (1, 2, 3) and r[0] == 'ok' and not decl.final_as_name(toks):
            msg = "model rejects (code %d) but the implementation reports %s" % (m[1], r[1:])
        elif m[0] == 'err' and m[1] == 9:
            msg = "model ran out of fuel"
        if msg:
            corr.disagreements.append(dict(case=dict(kind='corr-friend', tokens=toks), model=str(m)[:400], impl=str(r)[:400],
                                           what="friend declaration `friend %s`: %s" % (' '.join(toks), msg)))


def correspond(ctx):
    corr = c05.correspond(ctx)
    from harness import bodies, classdef
    bodies.corr_class_bodies(ctx, corr)
    classdef.corr_class_defs(ctx, corr)
    classdef.corr_corpus_units(ctx, corr)          # ... and on the inputs of the test-suite
    corr_friends(ctx, corr)
    corr_op_members(ctx, corr)
    corr_conv_ops(ctx, corr)
    corr_finish(ctx, corr)
    corr_op_names(ctx, corr)
    corr_member_stmts(ctx, corr)
    corr_ctor_dtor(ctx, corr)
    corr_class_enum(ctx, corr)
    corr_bases(ctx, corr)
    corr_fields(ctx, corr)
    corr_method_ends(ctx, corr)
    corr_class_heads(ctx, corr)
    corr.note += " | base clauses: extracted Parse/BaseClause.v vs class_decl.bases of parse_string on valid and mutated clauses (class keys struct / class / union)"
    return corr


QUALS = [
    # (suffix text, expected attribute dict)
    ("", {}), (" const", {"const": True}), (" volatile", {"volatile": True}), (" const volatile", {"const": True, "volatile": True}),
    (" &", {"ref_qualifier": "&"}), (" &&", {"ref_qualifier": "&&"}), (" const &", {"const": True, "ref_qualifier": "&"}),
    (" noexcept", {"noexcept": []}), (" noexcept(true)", {"noexcept": ["true"]}), (" throw()", {"throw": []}), (" throw(int)", {"throw": ["int"]}),
    (" override", {"override": True}), (" final", {"final": True}), (" const override final", {"const": True, "override": True, "final": True}),
    (" = 0", {"pure_virtual": True}), (" = delete", {"deleted": True}), (" = default", {"default": True}), (" {}", {"has_body": True}),
    (" const noexcept override", {"const": True, "noexcept": [], "override": True}), (" -> int", {"has_trailing_return": True}),
    (" const -> int { return 0; }", {"const": True, "has_trailing_return": True, "has_body": True}),
    # what may follow a trailing return type (F36)
    (" const -> int override", {"const": True, "has_trailing_return": True, "override": True}),
    (" -> int final", {"has_trailing_return": True, "final": True}),
    (" -> int = 0", {"has_trailing_return": True, "pure_virtual": True}),
    (" noexcept -> int override final { return 0; }", {"noexcept": [], "has_trailing_return": True, "override": True, "final": True, "has_body": True}),
]
METHOD_DEFAULTS = dict(const=False, volatile=False, ref_qualifier=None, noexcept=None, throw=None, override=False, final=False,
                       pure_virtual=False, deleted=False, default=False, has_body=False, has_trailing_return=False, virtual=False,
                       explicit=False, static=False, inline=False, constexpr=False, constructor=False, destructor=False, operator=None)


class ClassGen:
    def __init__(self, rng):
        self.rng = rng
        self.n = 0
        self.anon = 0

    def fresh(self):
        self.n += 1
        return self.n

    def gen_class(self, depth, outer_lines, indent=""):
        """returns expectation dict of the class; appends source lines"""
        rng = self.rng
        key = rng.choice(["class", "struct", "struct", "union"])
        name = "C%d" % self.fresh()
        bases = []
        head = "%s %s" % (key, name)
        if key != "union" and rng.random() < 0.35:
            default = "private" if key == "class" else "public"
            bl = []
            for _ in range(rng.randint(1, 3)):
                acc = rng.choice([None, "public", "protected", "private"])
                virt = rng.random() < 0.25
                bn = "B%d" % self.fresh()
                pack = rng.random() < 0.1
                parts = []
                if virt and rng.random() < 0.5:
                    parts.append("virtual")
                    if acc:
                        parts.append(acc)
                else:
                    if acc:
                        parts.append(acc)
                    if virt:
                        parts.append("virtual")
                parts.append(bn + ("..." if pack else ""))
                bl.append(" ".join(parts))
                bases.append((bn, acc or default, virt, pack))
            head += " : " + ", ".join(bl)
        final = rng.random() < 0.1 and not bases
        if final:
            head = "%s %s final" % (key, name)
        # class templates: primary, explicit and partial specializations -- the members are the same members
        if key != "union" and rng.random() < 0.25:
            form = rng.choice(["primary", "explicit", "partial", "partial2"])
            if form == "primary":
                head = "template <typename T> " + head
            else:
                args = {"explicit": "<int>", "partial": "<T*>", "partial2": "<T, 3>"}[form]
                pre = "template <> " if form == "explicit" else "template <typename T> "
                head = pre + head.replace("%s %s" % (key, name), "%s %s%s" % (key, name, args), 1)
        outer_lines.append(indent + head + " {")
        exp = dict(name=name, key=key, bases=bases, final=final, fields=[], methods=[], friends=[], typedefs=[], using=[], using_alias=[],
                   enums=[], forward_decls=[], classes=[])
        access = "private" if key == "class" else "public"
        ind = indent + "  "
        for _ in range(rng.randint(0, 9)):
            r = rng.random()
            k = self.fresh()
            if r < 0.12:
                access = rng.choice(["public", "protected", "private"])
                outer_lines.append(ind + access + ":")
            elif r < 0.30:
                form = rng.choice(["plain", "static", "mutable", "bits", "bits_init", "bits_multi", "init", "array", "multi", "ptr"])
                if key == "union" and form in ("static", "mutable"):
                    form = "plain"
                if form == "plain":
                    outer_lines.append(ind + "int f%d;" % k); exp["fields"].append(("f%d" % k, access, {}))
                elif form == "static":
                    outer_lines.append(ind + "static int f%d;" % k); exp["fields"].append(("f%d" % k, access, {"static": True}))
                elif form == "mutable":
                    outer_lines.append(ind + "mutable int f%d;" % k); exp["fields"].append(("f%d" % k, access, {"mutable": True}))
                elif form == "bits":
                    outer_lines.append(ind + "int f%d : 3;" % k); exp["fields"].append(("f%d" % k, access, {"bits": 3}))
                elif form == "bits_init":
                    w = rng.choice([1, 3, 12])
                    txt, val = rng.choice([(" = 1", ["1"]), (" {2}", ["{", "2", "}"]), (" = (a | b)", ["(", "a", "|", "b", ")"])])
                    outer_lines.append(ind + "unsigned f%d : %d%s;" % (k, w, txt)); exp["fields"].append(("f%d" % k, access, {"bits": w, "value": val}))
                elif form == "bits_multi":
                    outer_lines.append(ind + "int f%d : 6 = 1, : 2, g%d, h%d : 4;" % (k, k, k))
                    exp["fields"].append(("f%d" % k, access, {"bits": 6, "value": ["1"]})); exp["fields"].append((None, access, {"bits": 2}))
                    exp["fields"].append(("g%d" % k, access, {})); exp["fields"].append(("h%d" % k, access, {"bits": 4}))
                elif form == "init":
                    outer_lines.append(ind + "int f%d = 7;" % k); exp["fields"].append(("f%d" % k, access, {"value": ["7"]}))
                elif form == "array":
                    outer_lines.append(ind + "int f%d[4];" % k); exp["fields"].append(("f%d" % k, access, {"array": True}))
                elif form == "ptr":
                    outer_lines.append(ind + "const char* f%d;" % k); exp["fields"].append(("f%d" % k, access, {"ptr": True}))
                else:
                    outer_lines.append(ind + "int f%d, *g%d;" % (k, k))
                    exp["fields"].append(("f%d" % k, access, {})); exp["fields"].append(("g%d" % k, access, {"ptr": True}))
            elif r < 0.55:
                self.gen_method(exp, outer_lines, ind, name, access, k, key)
            elif r < 0.62:
                if rng.random() < 0.5:
                    fk = rng.choice(["class", "struct", "enum", "union"])
                    outer_lines.append(ind + "friend %s F%d;" % (fk, k)); exp["friends"].append(("cls", "F%d" % k, access))
                else:
                    outer_lines.append(ind + "friend void ff%d(int);" % k); exp["friends"].append(("fn", "ff%d" % k, access))
            elif r < 0.68:
                outer_lines.append(ind + "typedef int t%d;" % k); exp["typedefs"].append(("t%d" % k, access))
            elif r < 0.74:
                outer_lines.append(ind + "using u%d = int;" % k); exp["using_alias"].append(("u%d" % k, access))
            elif r < 0.78:
                if rng.random() < 0.4:
                    # using-declarations of operators (F38): the operator name ends at the ';'
                    op = rng.choice(["=", "()", "[]", "+", "<<", "==", "->", "!", "+="])
                    outer_lines.append(ind + "using B::operator%s;" % op); exp["using"].append(("operator" + op, access))
                else:
                    outer_lines.append(ind + "using B::x%d;" % k); exp["using"].append(("x%d" % k, access))
            elif r < 0.84:
                outer_lines.append(ind + "enum e%d { a%d, b%d = 2 };" % (k, k, k)); exp["enums"].append(("e%d" % k, access))
            elif r < 0.88:
                outer_lines.append(ind + "class fw%d;" % k); exp["forward_decls"].append(("fw%d" % k, access))
            elif r < 0.95 and depth < 3:
                sub = self.gen_class(depth + 1, outer_lines, ind)
                sub["access"] = access
                exp["classes"].append(sub)
            elif depth < 3:
                # anonymous struct with trailing declarators sharing one id
                kk = rng.choice(["struct", "union"])
                tr = rng.choice([[], ["v%d" % k], ["v%d" % k, "w%d" % k]])
                # cv-qualifiers in front of the key or behind the brace belong to the type of every trailing declarator
                lead = rng.choice(["", "", "const ", "volatile "]) if tr else ""
                trail = rng.choice(["", "", " const"]) if tr and not lead else ""
                cv = dict(const=("const" in lead or "const" in trail), volatile="volatile" in lead)
                # an attribute between the key and the brace does not make the type any less anonymous: it still takes the next id
                attr = rng.choice(["", "", "", " __attribute__((packed))", " __declspec(align(8))", " alignas(8)", " [[deprecated]]"])
                outer_lines.append(ind + "%s%s%s {" % (lead, kk, attr))
                outer_lines.append(ind + "  int in%d;" % k)
                outer_lines.append(ind + "}" + trail + (" " + ", ".join(tr) if tr else "") + ";")
                sub = dict(name=None, key=kk, bases=[], final=False, fields=[("in%d" % k, "public", {})], methods=[], friends=[], typedefs=[],
                           using=[], using_alias=[], enums=[], forward_decls=[], classes=[], access=access, anon=True)
                exp["classes"].append(sub)
                if tr:
                    for nm in tr:
                        exp["fields"].append((nm, access, {"anon_of": len(exp["classes"]) - 1, "cv": [cv["const"], cv["volatile"]]}))
                else:
                    exp["fields"].append((None, access, {"anon_of": len(exp["classes"]) - 1}))
        outer_lines.append(indent + "};")
        return exp

    def gen_method(self, exp, lines, ind, cname, access, k, key):
        rng = self.rng
        form = rng.choice(["plain", "plain", "ctor", "dtor", "op", "conv", "static", "virtual", "template"])
        attrs = {}
        if form == "ctor":
            pre = rng.choice(["", "explicit ", "constexpr ", "inline "])
            suf, q = rng.choice([("", {}), (" = default", {"default": True}), (" = delete", {"deleted": True}), (" {}", {"has_body": True}),
                                 (" : m(1) {}", {"has_body": True}), (" noexcept", {"noexcept": []}),
                                 (" : m(1), n{2}, B<int>(a) {}", {"has_body": True}), (" : Ts(ts)... {}", {"has_body": True}),
                                 (" : count(sizeof...(Ts)), Ts(ts)... {}", {"has_body": True}), (" : Ts{ts}..., m(0) { init(); }", {"has_body": True}),
                                 (" noexcept : m{1} {}", {"has_body": True, "noexcept": []})])
            args = rng.choice(["", "int a", "const %s& o" % cname, "%s&& o" % cname])
            lines.append(ind + "%s%s(%s)%s;" % (pre, cname, args, suf))
            attrs = dict(q, constructor=True)
            if pre.strip():
                attrs[pre.strip()] = True
            exp["methods"].append((cname, access, attrs, None))
            return
        if form == "dtor":
            pre = rng.choice(["", "virtual "])
            suf, q = rng.choice([("", {}), (" = default", {"default": True}), (" {}", {"has_body": True}), (" = 0", {"pure_virtual": True}),
                                 (" noexcept", {"noexcept": []})])
            lines.append(ind + "%s~%s()%s;" % (pre, cname, suf))
            attrs = dict(q, destructor=True)
            if pre:
                attrs["virtual"] = True
            exp["methods"].append(("~" + cname, access, attrs, None))
            return
        if form == "op":
            op, sig = rng.choice([("==", "bool operator==(const %s& o) const" % cname), ("=", "%s& operator=(const %s& o)" % (cname, cname)),
                                  ("()", "void operator()(int a)"), ("[]", "int& operator[](int i)"), ("<<", "%s& operator<<(int x)" % cname),
                                  ("->", "%s* operator->()" % cname), ("<", "bool operator<(const %s& o) const" % cname), ("+=", "%s& operator+=(int)" % cname),
                                  ("new", "void* operator new(unsigned long n)"), ("!", "bool operator!() const"), ("%", "int operator%(int) const")])
            lines.append(ind + sig + ";")
            attrs = {"operator": op}
            if sig.endswith(" const"):
                attrs["const"] = True
            exp["methods"].append(("operator" + op, access, attrs, None))
            if op == "()" and rng.random() < 0.5:
                # an explicit specialization of the call operator: the name is still operator(), the operator still "()"
                lines.append(ind + "template <> void operator()<int>(int a);")
                exp["methods"].append(("operator()", access, {"operator": "()"}, "template"))
            return
        if form == "conv":
            ty = rng.choice(["int", "bool", "const char*", "%s*" % cname])
            pre = rng.choice(["", "explicit "])
            lines.append(ind + "%soperator %s() const;" % (pre, ty))
            attrs = {"operator": "conversion", "const": True}
            if pre:
                attrs["explicit"] = True
            exp["methods"].append(("operator", access, attrs, None))
            return
        name = "m%d" % k
        pre = ""
        if form == "static" and key != "union":
            pre = "static "; attrs["static"] = True
        elif form == "virtual" and key != "union":
            pre = "virtual "; attrs["virtual"] = True
        elif form == "template":
            pre = "template <typename T> "
        suf, q = rng.choice(QUALS)
        if form == "template":      # member templates cannot be virtual
            suf, q = rng.choice([x for x in QUALS if not any(k in x[1] for k in ("pure_virtual", "override", "final"))])
        if "has_trailing_return" in q:
            decl = "%sauto %s(int a)%s" % (pre, name, suf)
        else:
            decl = "%sint %s(int a)%s" % (pre, name, suf)
        if q.get("pure_virtual") and "virtual" not in pre:
            decl = "virtual " + decl.replace("static ", "")
            attrs.pop("static", None)
            attrs["virtual"] = True
        if form == "static" and any(x in q for x in ("const", "volatile", "ref_qualifier", "override", "final")):
            decl = decl.replace("static ", ""); attrs.pop("static", None)
        lines.append(ind + decl + (";" if not decl.rstrip().endswith("}") else ""))
        attrs.update(q)
        exp["methods"].append((name, access, attrs, "template" if form == "template" else None))


def vals(v):
    return None if v is None else [t.value for t in v.tokens]


def compare_class(cs, exp, path, anon_seen):
    """returns None or message"""
    cd = cs.class_decl
    seg = cd.typename.segments[-1]
    where = path + "/" + str(exp["name"])
    if exp.get("anon"):
        if not isinstance(seg, T.AnonymousName):
            return "%s: anonymous type has a name" % where
        if seg.id in anon_seen:
            return "%s: anonymous id %d reused" % (where, seg.id)
        anon_seen.add(seg.id)
    else:
        if getattr(seg, "name", None) != exp["name"]:
            return "%s: class name %r" % (where, getattr(seg, "name", None))
    if cd.typename.classkey != exp["key"]:
        return "%s: class key %r, written %r" % (where, cd.typename.classkey, exp["key"])
    if cd.final != exp["final"]:
        return "%s: final flag" % where
    got_b = [(b.typename.segments[-1].name, b.access, b.virtual, b.param_pack) for b in cd.bases]
    if got_b != exp["bases"]:
        return "%s: bases %r, written %r" % (where, got_b, exp["bases"])
    if "access" in exp and cd.access != exp["access"]:
        return "%s: nested class access %r, in force %r" % (where, cd.access, exp["access"])
    # fields
    if len(cs.fields) != len(exp["fields"]):
        return "%s: %d fields reported, %d written" % (where, len(cs.fields), len(exp["fields"]))
    for f, (n, acc, a) in zip(cs.fields, exp["fields"]):
        if f.name != n:
            return "%s: field %r reported where %r was written" % (where, f.name, n)
        if f.access != acc:
            return "%s: field %s has access %r, in force %r" % (where, n, f.access, acc)
        if f.static != bool(a.get("static")) or f.mutable != bool(a.get("mutable")):
            return "%s: field %s static/mutable flags" % (where, n)
        if f.bits != a.get("bits"):
            return "%s: field %s bits" % (where, n)
        if vals(f.value) != a.get("value"):
            return "%s: field %s value %r" % (where, n, vals(f.value))
        if a.get("array") and not isinstance(f.type, T.Array):
            return "%s: field %s is not an array" % (where, n)
        if a.get("ptr") and not isinstance(f.type, T.Pointer):
            return "%s: field %s is not a pointer" % (where, n)
        if "anon_of" in a:
            sub = cs.classes[a["anon_of"]]
            t = f.type
            while not isinstance(t, T.Type):
                t = getattr(t, "ptr_to", None) or getattr(t, "array_of", None)
            if t.typename.segments[-1] != sub.class_decl.typename.segments[-1]:
                return "%s: declarator %r of an anonymous type does not carry that type's id" % (where, n)
            if "cv" in a and [t.const, t.volatile] != list(a["cv"]):
                return "%s: declarator %r of an anonymous type is reported const=%s volatile=%s, written %r" % (where, n, t.const, t.volatile, a["cv"])
    # methods
    if len(cs.methods) != len(exp["methods"]):
        return "%s: %d methods reported, %d written (%r)" % (where, len(cs.methods), len(exp["methods"]), [m.name.segments[-1].name for m in cs.methods])
    for m, (n, acc, a, tmpl) in zip(cs.methods, exp["methods"]):
        mn = m.name.segments[-1].name
        if mn != n:
            return "%s: method %r reported where %r was written" % (where, mn, n)
        if m.access != acc:
            return "%s: method %s has access %r, in force %r" % (where, n, m.access, acc)
        want = dict(METHOD_DEFAULTS)
        want.update(a)
        for k, v in want.items():
            g = getattr(m, k)
            if k in ("noexcept", "throw"):
                g = vals(g)
            if g != v:
                return "%s: method %s: %s is %r, written %r" % (where, n, k, g, v)
        if (m.template is not None) != (tmpl is not None):
            return "%s: method %s template header" % (where, n)
    # others
    for fld, getter in (("typedefs", lambda x: (x.name, x.access)), ("using_alias", lambda x: (x.alias, x.access)),
                        ("using", lambda x: (x.typename.segments[-1].name, x.access)),
                        ("enums", lambda x: (x.typename.segments[-1].name, x.access)),
                        ("forward_decls", lambda x: (x.typename.segments[-1].name, x.access))):
        got = [getter(x) for x in getattr(cs, fld)]
        if got != exp[fld]:
            return "%s: %s %r, written %r" % (where, fld, got, exp[fld])
    # a friend declaration carries the access level in force where it is written, like every other member
    gotf = [("cls", f.cls.typename.segments[-1].name, f.cls.access) if f.cls else ("fn", f.fn.name.segments[-1].name, f.fn.access) for f in cs.friends]
    if gotf != exp["friends"]:
        return "%s: friends %r, written %r" % (where, gotf, exp["friends"])
    if len(cs.classes) != len(exp["classes"]):
        return "%s: %d nested classes reported, %d written" % (where, len(cs.classes), len(exp["classes"]))
    for c, e in zip(cs.classes, exp["classes"]):
        m = compare_class(c, e, where, anon_seen)
        if m:
            return m
    return None


def check_classes(src, exps):
    try:
        d = parse_string(src)
    except Exception as e:
        return "class definition does not parse: %s" % str(e)[:160]
    if len(d.namespace.classes) != len(exps):
        return "%d classes reported, %d written" % (len(d.namespace.classes), len(exps))
    seen = set()
    for cs, e in zip(d.namespace.classes, exps):
        m = compare_class(cs, e, "", seen)
        if m:
            return m
    return None


def search(ctx, boost=False):
    s = Search()
    s.rule = ("AST-first class definitions: member sequences of fields (static/mutable/bitfield/initialiser/array/pointer/multi-declarator), "
              "methods (21 qualifier combinations, static/virtual/template), constructors, destructors, overloaded and conversion operators, "
              "friends, typedefs, using, enums, forward declarations, nested classes to depth 3, anonymous struct/union members with trailing "
              "declarators, access specifiers anywhere, class keys, bases with access/virtual/pack; the expected ClassScope is built by the "
              "generator; non-trivial = class with >=3 members; distinct = distinct source")
    rng = ctx.rng
    n = ctx.scale(700, 20000) * (3 if boost else 1)
    for _ in range(n):
        g = ClassGen(rng)
        lines, exps = [], []
        for _ in range(rng.randint(1, 2)):
            exps.append(g.gen_class(0, lines))
        src = "\n".join(lines) + "\n"
        s.evaluations += 1
        if src.count(";") >= 4:
            s.nontrivial.add(src)
        s.count("members=%d" % min(src.count(";"), 15))
        msg = check_classes(src, exps)
        if msg:
            s.violations.append(dict(what=msg, case=dict(kind="class", source=src, expected=exps)))
        if len(s.samples) < 2 and src.count(";") > 6:
            s.samples.append(dict(source=src))
    return s


def replay(ctx, case):
    if case.get("kind") == "corr-ctordtor":
        tup = lambda x: None if x is None else tuple(x)
        c = (case["in_class"], case["is_friend"], case["is_type"], tup(case["cls"]), [tup(x) for x in case["segs"]])
        m, r = model_ctor_dtor([c])[0], real_ctor_dtor(*c)
        return ["constructor/destructor detection: model %s, implementation %s" % (m, r)] if m != r else []
    if case.get("kind") == "corr-classenum":
        c = (tuple(case["key"]), tuple(case["flags"]), case["template"], case["is_typedef"], case["is_friend"], case["tokens"])
        m = model_class_enum([c])[0]
        r = real_class_enum(*c)
        if r[0] != 'other' and ((m[0] == 'ok') != (r[0] == 'ok') or (m[0] == 'ok' and m != r)):
            return ["class/enum dispatch: model %s, implementation %s" % (m, r)]
        return []
    if case.get("kind") != "class":
        return []

    def fix(e):
        e["bases"] = [tuple(b) for b in e["bases"]]
        for k in ("fields", "methods", "friends", "typedefs", "using", "using_alias", "enums", "forward_decls"):
            e[k] = [tuple(x) for x in e[k]]
        e["classes"] = [fix(c) for c in e["classes"]]
        return e
    m = check_classes(case["source"], [fix(e) for e in case["expected"]])
    return [m] if m else []


LEVEL_TEXT = ("PARTIAL. Proved in Coq, for inputs of any size: a member statement `spec* T spec* m1, ..., mn <end>` whose declarators are fields (any "
              "legal object type, bit-field width, initialiser) and methods (any legal return type and parameter list, qualifiers in any order) in any "
              "mixture yields exactly one member per declarator, in order, each of its own kind, with its own qualifier set and the ending written "
              "(member_statement_decodes_partial); `C(...) quals end` / `~C(...) quals end` in class C is one method flagged constructor / destructor "
              "without return type, member initialiser lists skipped exactly (special_member_statement_decodes_partial, constructor_in_class ...); conversion operators, overloaded-operator members (the "
              "operator is exactly the tokens behind `operator`), friend functions and friend types as whole statements; what follows the closing "
              "brace of a definition -- every trailing declarator is built on the one type of the definition, so an anonymous id is shared by "
              "exactly these declarators (anonymous_id_shared_by_its_declarators); "
              "base lists of any length report every base once, in order, with its flags and the class-key default access per base "
              "(base_clause_decodes_partial); the decision table of elaborated-type members (forward / friend / class / enum and the reject rules); "
              "whole class definitions nested to any depth on the parser side (Parse/ClassDef.v: class statement, body under the class's own "
              "default access, closing brace, what follows it, recursively): the tree written is the tree read, every member, forward "
              "declaration, using-declaration, alias, enum and nested class under the access in force in its own class "
              "(nested_classes_keep_their_own_access_partial and the *_tree_elements theorems; class_templates_decode_partial for one "
              "template header in front); "
              "and, on the regenerated block machine, the access delivered with a member equals the backward-scan specification for every prefix of "
              "events and any nesting depth (access_in_force_partial). Tie: every model is extracted and run beside parse_string / the real method "
              "on valid and mutated token lists; the mirrored functions are AST-digest pinned; the block machine is run against the real callback "
              "stream. Typedef / template / using members as dispatched around the statement, trailing return types, requires-clauses on methods and "
              "the numbering of anonymous ids across definitions are decided by the AST-first class search whose expectation is built by the generator.")
LEVEL_NOTE = ("Trusted: Coq kernel, atom vocabulary, extraction, driver, harness. The hand-written models mirror the Python code; their agreement "
              "is checked by the differential runs, not proved.")
TECHNIQUE = "Coq proofs (whole member statements, constructors / destructors, base clauses, method tails: unbounded; backward-scan access specification over regenerated effect atoms; whole class definitions nested to any depth over a recursive statement-loop model) + differential runs + AST-digest pins + AST-first class-definition search"

"""C04 -- The visitor callback stream is a well-formed, complete traversal."""
import dataclasses

from harness.core import Corr, Search
from harness import blocks, impl
from harness.props import c05

PID = "C04"
TITLE = "The visitor callback stream is a well-formed, complete traversal"
THEOREM_FILE = "Props/C04.v"
MODELLED = c05.MODELLED + "; the simple visitor's fold and the raise-stops-delivery clause are checked on the implementation (search), see C12 for the fold model"
ASSUMPTIONS = ["the visitor never returns False from a start callback (C05 covers skipping)"]

def allowed_states():
    """callback name -> tuple of state classes its signature in visitor.py declares"""
    import typing
    from cxxheaderparser import visitor as V
    from cxxheaderparser import parserstate as S
    out = {}
    for name in dir(V.CxxVisitor):
        if not name.startswith("on_"):
            continue
        hints = typing.get_type_hints(getattr(V.CxxVisitor, name), vars(V))
        t = hints.get("state")
        args = typing.get_args(t) if typing.get_origin(t) is typing.Union else (t,)
        classes = []
        for a in args:
            o = typing.get_origin(a) or a
            if o in (S.NamespaceBlockState, S.ExternBlockState, S.ClassBlockState):
                classes.append(o)
        if classes:
            out[name] = tuple(classes)
    return out


_ALLOWED = None


def correspond(ctx):
    return c05.correspond(ctx)


def wf_stream(rec):
    """the property's well-formedness clauses on a recorded real stream"""
    PS = impl.P
    from cxxheaderparser import parserstate as S
    raw = rec.raw
    if not raw or raw[0][0] != "on_parse_start":
        return "first callback is not on_parse_start"
    if sum(1 for r in raw if r[0] == "on_parse_start") != 1:
        return "on_parse_start delivered more than once"
    stack = [raw[0][1]]
    for name, state, payload in raw[1:]:
        if name in blocks.START:
            if state.parent is not stack[-1]:
                return "%s: parent is not the innermost open block" % name
            stack.append(state)
        elif name in blocks.END:
            if state is not stack[-1]:
                return "%s does not match the most recent open start" % name
            stack.pop()
            if not stack:
                return "root block ended"
        else:
            if state is not stack[-1]:
                return "%s carries a state that is not the innermost open block" % name
        # kind constraints of the callback signature (read from visitor.py's annotations)
        global _ALLOWED
        if _ALLOWED is None:
            _ALLOWED = allowed_states()
        ok = _ALLOWED.get(name)
        if ok is not None and not isinstance(state, ok):
            return "%s delivered with a %s, its signature declares %s" % (
                name, type(state).__name__, "/".join(c.__name__ for c in ok))
    return None


class Tee:
    """forwards every callback to the library's SimpleCxxVisitor and to a recorder"""

    def __init__(self, rec):
        self.simple = impl.SimpleCxxVisitor()
        self.rec = rec

    def __getattr__(self, name):
        if not name.startswith("on_"):
            raise AttributeError(name)
        f1 = getattr(self.simple, name)
        f2 = getattr(self.rec, name)

        def cb(*a):
            r = f1(*a)
            f2(*a)
            return r
        return cb


FIELD_OF = {"on_variable": "variables", "on_function": "functions", "on_typedef": "typedefs", "on_using_alias": "using_alias",
            "on_using_declaration": "using", "on_enum": "enums", "on_forward_decl": "forward_decls",
            "on_namespace_alias": "ns_alias", "on_concept": "concepts", "on_template_inst": "template_insts",
            "on_method_impl": "method_impls", "on_deduction_guide": "deduction_guides", "on_class_field": "fields",
            "on_class_method": "methods", "on_class_friend": "friends"}


def fold_check(source):
    """independent fold of the recorded stream: every payload must be stored exactly once, in order,
    in the scope of its state; compares with what SimpleCxxVisitor built"""
    rec = blocks.Recorder()
    tee = Tee(rec)
    try:
        impl.P.CxxParser("<str>", source, tee).parse()
    except Exception as e:
        return None, "parse failed: %s" % e
    data = tee.simple.data
    # expected per-state lists
    per_state = {}
    order = []
    for name, state, payload in rec.raw:
        if name in FIELD_OF:
            key = (id(state), FIELD_OF[name])
            if key not in per_state:
                per_state[key] = []
                order.append((state, FIELD_OF[name]))
            per_state[key].append(payload)
    # scope objects are state.user_data as set by the simple visitor
    seen_payload_ids = {}
    for state, fld in order:
        scope = state.user_data
        lst = getattr(scope, fld, None)
        if lst is None:
            return data, "scope of a state has no list %s" % fld
        exp = per_state[(id(state), fld)]
        # the scope may be shared (extern blocks, re-opened namespaces): expected must be a subsequence, and
        # the total count over all states sharing the scope must match
        it = iter(lst)
        for p in exp:
            for q in it:
                if q is p:
                    break
            else:
                return data, "payload of %s not stored (in order) in the scope of its state" % fld
        for p in exp:
            seen_payload_ids[id(p)] = seen_payload_ids.get(id(p), 0) + 1
    # nothing stored that was not delivered, nothing stored twice
    def walk(scope):
        for f in dataclasses.fields(scope):
            v = getattr(scope, f.name)
            if f.name == "namespaces":
                for ns in v.values():
                    yield from walk(ns)
            elif f.name == "classes":
                for c in v:
                    yield from walk(c)
            elif isinstance(v, list) and f.name in FIELD_OF.values():
                for x in v:
                    yield f.name, x
    stored = {}
    for fld, x in walk(data.namespace):
        stored[id(x)] = stored.get(id(x), 0) + 1
    for k, c in stored.items():
        if c != 1:
            return data, "a payload is stored %d times" % c
        if k not in seen_payload_ids:
            return data, "a stored object was never delivered by a callback"
    for k in seen_payload_ids:
        if k not in stored:
            return data, "a delivered payload is not stored anywhere"
    if len(data.pragmas) != sum(1 for r in rec.raw if r[0] == "on_pragma"):
        return data, "pragma count differs"
    if len(data.includes) != sum(1 for r in rec.raw if r[0] == "on_include"):
        return data, "include count differs"
    if data != impl.parse_string(source):
        return data, "parse_string differs from CxxParser+SimpleCxxVisitor"
    return data, None


class Boom(Exception):
    pass


def raise_check(source, n_callbacks, idx):
    rec, err = blocks.run_real(source, raise_at=idx, exc=Boom("stop"))
    if err is None:
        return "callback %d raised but parse() returned normally" % idx
    if not isinstance(err, impl.CxxParseError):
        return "callback raised: parse() failed with %s instead of CxxParseError" % type(err).__name__
    if not isinstance(err.__cause__, Boom):
        return "error is not chained to the original exception"
    if rec.ncalls != idx + 1:
        return "callbacks were delivered after callback %d raised (%d calls)" % (idx, rec.ncalls)
    return None


def check_source(src):
    msgs = []
    rec, err = blocks.run_real(src)
    if err is not None:
        return ["program does not parse: %s" % err], 0
    m = wf_stream(rec)
    if m:
        msgs.append(m)
    _, m = fold_check(src)
    if m:
        msgs.append("fold: " + m)
    return msgs, rec.ncalls


def search(ctx, boost=False):
    s = Search()
    s.rule = ("generated block programs + test-suite corpus: well-formedness oracle on the recorded stream (object identity of states), "
              "fold oracle (every payload stored once, in order, in its state's scope; equals parse_string), and every raise position "
              "of small programs / sampled positions of larger ones; non-trivial = program with >=1 block; distinct = distinct source")
    rng = ctx.rng
    n = ctx.scale(500, 8000) * (3 if boost else 1)
    sources = []
    for _ in range(n):
        g = blocks.gen_program(rng, rng.choice([4, 8, 14, 30, 60]))
        sources.append((g.source(), sum(1 for e in g.events if e[0] == "open")))
    # mutated-input stream: items and blocks deliberately placed in the wrong kind of scope; the parser may
    # reject them, but whatever it delivers before that must still be well-formed
    for _ in range(n):
        g = blocks.gen_program(rng, rng.choice([4, 8, 14, 30]), cross=True)
        src = g.source()
        s.evaluations += 1
        s.count("cross-context")
        rec, err = blocks.run_real(src)
        s.count("cross-context:" + ("rejected" if err is not None else "accepted"))
        m = wf_stream(rec)
        if m:
            s.violations.append(dict(what="misplaced construct: " + m, case=dict(kind="partial", source=src)))
        if err is not None and not isinstance(err, impl.CxxParseError):
            s.violations.append(dict(what="misplaced construct: parse() failed with %s" % type(err).__name__,
                                     case=dict(kind="partial", source=src)))
    for src, nblocks in sources + [(c, 1) for c in impl_corpus()]:
        s.evaluations += 1
        if nblocks:
            s.nontrivial.add(src)
        msgs, ncalls = check_source(src)
        for m in msgs:
            s.violations.append(dict(what=m, case=dict(kind="stream", source=src)))
        if not msgs:
            # index 0 is on_parse_start, delivered by the constructor, not during parse()
            idxs = range(1, ncalls) if ncalls <= 12 else rng.sample(range(1, ncalls), 6)
            for i in idxs:
                s.evaluations += 1
                s.count("raise")
                m = raise_check(src, ncalls, i)
                if m:
                    s.violations.append(dict(what=m, case=dict(kind="raise", source=src, index=i)))
        if len(s.samples) < 2 and nblocks >= 2:
            s.samples.append(dict(source=src, callbacks=ncalls))
    return s


def impl_corpus():
    return impl.corpus()


def replay(ctx, case):
    if case.get("kind") == "stream":
        return check_source(case["source"])[0]
    if case.get("kind") == "partial":
        rec, err = blocks.run_real(case["source"])
        m = wf_stream(rec)
        return [m] if m else []
    if case.get("kind") == "raise":
        m = raise_check(case["source"], 0, case["index"])
        return [m] if m else []
    return []


LEVEL_TEXT = ("Proved in Coq for every event list that does not end in an error: the stream of the (regenerated, interpreted) block "
              "machine starts with on_parse_start, start/end callbacks nest, each end matches the most recent open start in id and "
              "kind, each start's parent and each item's state is the innermost open block, and the blocks open in the stream are "
              "exactly the blocks open in the source, i.e. every closed block was ended (stream_wellformed). Tie: end-to-end "
              "correspondence of model stream vs recorded real stream. The fold clause is proved on the collecting visitor as translated "
              "from simple.py on every run (Gen/VisitorTable.v): every payload-carrying callback of the protocol is exactly one append of "
              "its payload to one list of the scope of its state, every protocol callback is covered, no two callbacks share a list "
              "(every_payload_is_appended_once_to_the_scope_of_its_state, collecting_visitor_covers_the_protocol, "
              "no_two_callbacks_share_a_list); the scope structure of the fold is proved under C12. That the result equals "
              "parse_string, and the raise clause (no delivery after a raising callback, CxxParseError chained) are "
              "checked on the implementation for generated programs, the test corpus and every/sampled raise positions.")
LEVEL_NOTE = ("Trusted: Coq kernel, atom vocabulary, extraction, driver, harness. Signature-kind constraints, fold and raise clauses: "
              "search on the implementation only (the fold model lives under C12).")
TECHNIQUE = "Coq invariant proof over regenerated effect atoms + end-to-end differential run + stream/fold/raise oracles on the implementation"

"""C09 -- Layout between tokens never changes the result."""
from harness.core import Corr, Search
from harness import impl, blocks, streamcorr, lexgen

PID = "C09"
TITLE = "Layout between tokens never changes the result"
THEOREM_FILE = "Props/C09.v"
MODELLED = ("Stream/TokBuf.v is a hand-written mirror of TokenStream/LexerTokenStream (sets regenerated), tied to the code by replaying "
            "the recorded op trace of real parses; that the parser is a client of that interface is a set of AST facts regenerated on "
            "every run; the link from characters to raw tokens (a layout string lexes to layout tokens only and does not fuse its "
            "neighbours) and the pragma/include line-end rule are decided by the re-layout search, not by a theorem")
ASSUMPTIONS = ["layout_invariance_partial covers clients that use token/token_if*/peek/return only; pragma lines (NEWLINE-sensitive read) "
               "and doc-comment scans are covered by doxygen_scans_preserve_tokens and by search"]

DISCARD = impl.L.TokenStream._discard_types

LAYOUT_FULL = [" ", "  ", "\t", "\n", "\r\n", " \n  ", "\n\n", "/* c */", "/* x **/", "/* * **/", "/* a*b\n ***/", "/* a\n b */", "// c\n", " \\\n ", "\\\n", " /*x*/ // y\n", "\r\n\r\n", " \\\r\n "]
LAYOUT_NONL = [" ", "  ", "\t", "/* c */", "/* x **/", " /* a */ /* b */ "]
LAYOUT_PRAGMA_IN = [" ", "\t", "/* c */", "/* x **/", "/* a\n b */", " \\\n ", "  "]
LAYOUT_LINE_END = ["\n", "\r\n", " \n  ", " // c\n", " /* c */\n", " /* c **/\n", "\n\n", "\t\r\n"]


def logical_sig(text):
    ls = impl.L.LexerTokenStream("<str>", text)
    out = []
    while True:
        if not ls.tokbuf and not ls._fill_tokbuf(ls.tokbuf):
            return out
        while ls.tokbuf:
            t = ls.tokbuf.popleft()
            if t.type not in DISCARD:
                out.append(t)


def is_doc_text(s):
    return "///" in s or "//!" in s or "/**" in s or "/*!" in s


def fuses(a, b):
    """would writing a directly before b give a different token sequence?"""
    try:
        toks = logical_sig(a.value + b.value)
    except impl.L.LexError:
        return True
    return [(t.type, t.value) for t in toks] != [(a.type, a.value), (b.type, b.value)]


def gaps(text):
    """list of (start, end, kind) for the gaps between significant logical tokens; kind selects the layout alphabet"""
    toks = logical_sig(text)
    has_doc = is_doc_text(text)
    out = []
    in_pragma = False
    for i in range(len(toks) - 1):
        a, b = toks[i], toks[i + 1]
        s, e = a.lexpos + len(a.value), b.lexpos
        g = text[s:e]
        if a.type == "PRAGMA_DIRECTIVE":
            in_pragma = True
        if "#" in g or is_doc_text(g):
            in_pragma = in_pragma and "\n" not in g
            continue
        kind = "full"
        if a.type == "INCLUDE_DIRECTIVE":
            kind = "line_end"
        elif in_pragma:
            # does this gap end the pragma line? (a NEWLINE token or a comment carrying the newline, outside a spliced pair)
            ends = False
            raw = impl.L.PlyLexer("<str>")
            raw.input(g)
            prev = None
            while True:
                t = raw.token()
                if t is None:
                    break
                if t.type == "NEWLINE" and not (prev is not None and prev.type == "\\"):
                    ends = True
                if t.type.startswith("COMMENT") and t.value.endswith("\n"):
                    ends = True
                prev = t
            if ends:
                kind = "line_end"
                in_pragma = False
            else:
                kind = "pragma_in"
        elif has_doc:
            kind = "nonl"
        if b.type in ("PRAGMA_DIRECTIVE", "INCLUDE_DIRECTIVE") and kind in ("full", "nonl"):
            # a directive must stay the first thing on its (logical) line, otherwise it is not a directive
            kind = "line_end"
        if a.type == "DIVIDE" or a.value.endswith("/"):
            kind = kind + "|noslash"
        if a.type == "\\" or b.type == "\\":
            continue
        out.append((s, e, kind, a, b))
    return out


LINE_KEEPING = [" /* c */", "/* x **/", " /* a */ /* b */", " // c", "\t// x */"]


def line_keeping_layouts(g, noslash):
    """layouts for a gap of blanks and newlines in an input WITH documentation comments: a plain comment is put in front of the
    gap's first line end (so that it is the last thing on its line) or behind its last one; the line structure, and with it the
    attachment of every documentation comment, stays as it was"""
    if "\n" not in g or g.strip(" \t\r\n"):
        return []
    out = []
    for c in LINE_KEEPING:
        if noslash and c.lstrip().startswith("/"):
            continue
        out.append(c + g)
    if g.endswith((" ", "\t", "\n")):
        out.append(g + "/* c */ ")
    return out


def layouts_for(kind, a, b, rng, k):
    base = kind.split("|")[0]
    pool = {"full": LAYOUT_FULL, "nonl": LAYOUT_NONL, "pragma_in": LAYOUT_PRAGMA_IN, "line_end": LAYOUT_LINE_END}[base]
    pool = list(pool)
    if "noslash" in kind:
        pool = [p for p in pool if not p.startswith("/")]
    if base in ("full", "nonl") and not fuses(a, b):
        pool.append("")
    return rng.sample(pool, min(k, len(pool)))


def check_relayout(text, base, s, e, lay):
    new = text[:s] + lay + text[e:]
    try:
        got = impl.parse_string(new)
    except Exception as ex:
        return "layout %r at offset %d makes parsing fail: %s" % (lay, s, str(ex)[:120])
    if got != base:
        return "layout %r at offset %d changes the result" % (lay, s)
    return None


def valid_inputs(ctx, n_gen):
    rng = ctx.rng
    out = list(impl.corpus())
    for _ in range(n_gen):
        g = blocks.gen_program(rng, rng.choice([4, 8, 14, 30]))
        out.append(g.source())
    # documented programs (the generator of C11): their line structure carries meaning, plain comments do not
    from harness.props import c11
    for _ in range(max(10, n_gen // 3)):
        g = c11.DocGen(rng)
        g.toplevel(rng.choice([2, 4, 8]))
        out.append(g.source())
    out += ["int a, /* first */\n    b; ///< doc b\nenum E {\n  A\n  , B ///< doc B\n};\n"]
    # a line that ends in the middle of a statement, the next line carries a trailing doc comment: a plain comment put at the end
    # of the first line must not move that comment (fixed inputs: every line-keeping layout is tried on each of their gaps)
    out += ["int a,\n    b; ///< doc b\n", "struct S {\n  int a,\n      b; ///< doc b\n};\n", "enum E {\n  A\n  , B ///< doc B\n};\n",
            "int f(int x,\n      int y); ///< doc f\nint g;\n", "struct T {\n  int m\n    = 1; //!< doc m\n  int n;\n};\n"]
    out += ["#pragma once\n#include <a.h>\nint x;\n#pragma pack(push, 1)\nstruct S { int a; };\n#pragma pack(pop)\n#include \"b/c.h\"\n",
            "#pragma omp parallel for schedule(static, 4)\nvoid f();\n", "int x = 1'000; auto y = 12_km + \"s\"_x; char c = 'a';\n"]
    return out


def correspond(ctx):
    corr = Corr()
    rng = ctx.rng
    srcs = list(impl.corpus())
    for _ in range(ctx.scale(150, 3000)):
        g = blocks.gen_program(rng, rng.choice([4, 8, 14, 30]))
        srcs.append(g.source())
    # re-laid-out variants and broken inputs exercise fill/splice/UDL/error paths
    extra = []
    for s in rng.sample(srcs, min(len(srcs), ctx.scale(120, 2000))):
        gs = gaps_safe(s)
        if gs:
            st, en, kind, a, b = rng.choice(gs)
            lay = rng.choice(layouts_for(kind, a, b, rng, 3) or [" "])
            extra.append(s[:st] + lay + s[en:])
        extra.append(lexgen.mutate(rng, s))
    nops = 0
    for s in srcs + extra:
        rs, err, _ = streamcorr.record_parse(s)
        corr.cases += 1
        nops += len(rs.ops)
        k = "parse-ok" if err is None else "parse-error"
        corr.dist[k] = corr.dist.get(k, 0) + 1
        d = streamcorr.compare(rs, "<str>", s)
        if d:
            corr.disagreements.append(dict(case=dict(source=s), op_index=d[0], op=d[1], impl=d[2], model=d[3]))
    corr.dist["stream_ops_replayed"] = nops
    corr.samples = [dict(source=srcs[-1], ops=len(streamcorr.record_parse(srcs[-1])[0].ops))]
    corr.note = "every TokenStream method call the real parser makes (recorded by a wrapping LexerTokenStream) is replayed on the extracted TokBuf model over the same text; responses must agree"
    return corr


def gaps_safe(s):
    try:
        return gaps(s)
    except impl.L.LexError:
        return []


def search(ctx, boost=False):
    s = Search()
    s.rule = ("every valid input (test corpus + generated block programs + directive samples): token gaps x layout strings from the "
              "layout alphabet (blanks, tabs, LF, CRLF, block and line comments, backslash-newline, empty when the neighbours do not "
              "fuse; line-end-preserving alphabets on #include/#pragma lines; when the input has doc comments a newline-free alphabet plus, for "
              "gaps with a line end, plain comments written in front of / behind the line ends; inputs include the documented programs of C11); "
              "quick tier samples gaps and layouts, thorough tier takes every gap; oracle: ParsedData equal; non-trivial = layout differs "
              "from the original gap; distinct = distinct (input, gap, layout)")
    rng = ctx.rng
    inputs = valid_inputs(ctx, ctx.scale(60, 1500))
    per_input_gaps = None if ctx.thorough else (10 if boost else 4)
    per_gap = 4 if ctx.thorough else 2
    for text in inputs:
        try:
            base = impl.parse_string(text)
        except Exception:
            continue
        gs = gaps_safe(text)
        if per_input_gaps is not None and len(gs) > per_input_gaps:
            gs = rng.sample(gs, per_input_gaps)
        for (st, en, kind, a, b) in gs:
            lays = layouts_for(kind, a, b, rng, per_gap)
            if kind.split("|")[0] == "nonl" and "\n" in text[st:en]:
                # the input has documentation comments and this gap has a line end: which declaration a comment trails or
                # precedes depends on the lines, so only layouts that keep them are neutral
                extra = line_keeping_layouts(text[st:en], "noslash" in kind)
                lays = extra            # all of them, in both tiers: which one exposes a defect depends on the lines around the gap
            for lay in lays:
                s.evaluations += 1
                s.count(kind.split("|")[0])
                if lay != text[st:en]:
                    s.nontrivial.add((text, st, lay))
                msg = check_relayout(text, base, st, en, lay)
                if msg:
                    s.violations.append(dict(what=msg, case=dict(kind="relayout", source=text, start=st, end=en, layout=lay)))
        if len(s.samples) < 2 and gs:
            st, en, kind, a, b = gs[0]
            s.samples.append(dict(source=text[:300], gap=[st, en], alphabet=kind))
    # directive lines are read line-aware: every gap of a few directive lines x the whole alphabet of that gap, exhaustively
    for text in DIRECTIVE_TEXTS:
        base = impl.parse_string(text)
        for (st, en, kind, a, b) in gaps_safe(text):
            for lay in layouts_for(kind, a, b, rng, 1000):
                s.evaluations += 1
                s.count("directive:" + kind.split("|")[0])
                if lay != text[st:en]:
                    s.nontrivial.add((text, st, lay))
                msg = check_relayout(text, base, st, en, lay)
                if msg:
                    s.violations.append(dict(what=msg, case=dict(kind="relayout", source=text, start=st, end=en, layout=lay)))
    return s


DIRECTIVE_TEXTS = ["#pragma omp parallel for schedule(static, 4)\nvoid f();\n", "int a;\n#pragma pack(push, 1)\nstruct S { int a; };\n#pragma pack(pop)\n",
                   "#pragma once\n#include <a.h>\nint x;\n#include \"b/c.h\"\n#pragma GCC diagnostic ignored \"-Wall\"\nint y;\n"]


def replay(ctx, case):
    if case.get("kind") != "relayout":
        return []
    base = impl.parse_string(case["source"])
    m = check_relayout(case["source"], base, case["start"], case["end"], case["layout"])
    return [m] if m else []


LEVEL_TEXT = ("Proved in Coq for EVERY client of the token-stream interface (an arbitrary adaptive program over token/token_eof_ok, "
              "token_if/_in_set/_val/_not, token_peek_if, return_token(s)): running it on the concrete buffer machine (line-at-a-time "
              "fill, backslash-newline splicing, UDL fusion, discard of layout tokens, push-back) equals running it on the plain list "
              "of significant tokens (stream_refines_sig), hence two inputs whose significant tokens agree are indistinguishable "
              "(layout_invariance_partial); the doc-comment scans never change what will be read (doxygen_scans_preserve_tokens); and "
              "the parser is such a client (parser_is_a_client: AST facts recomputed on every run). Tie: the op trace of real parses "
              "(every stream call and its response) is replayed on the extracted model. Partial: the character-level link (a layout "
              "string yields layout tokens only), the NEWLINE-sensitive pragma loop and #include line ends are decided by the "
              "re-layout search over corpus and generated programs.")
LEVEL_NOTE = ("Trusted: Coq kernel, translator (sets, facts), extraction, driver, harness. Hand model of the stream validated by op-trace "
              "replay. Character-level layout-to-token link and directive line ends: search only.")
TECHNIQUE = "Coq client-parametric refinement proof (any client = interaction tree) + AST facts + op-trace replay correspondence + re-layout metamorphic search"

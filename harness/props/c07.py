"""C07 -- Parsing time is polynomially bounded in input size."""
import re
import signal
import time

import re._parser as sre_parse
import re._constants as C

from harness.core import Corr, Search, run_driver
from harness import impl
from harness.props import c08

PID = "C07"
TITLE = "Parsing time is polynomially bounded in input size"
THEOREM_FILE = "Props/C07.v"
MODELLED = ("cost is a MODEL: step counts of the Coq backtracking matcher over the regenerated regexes and of the token-level consumers; "
            "CPython's re engine and the parser's CPU time are observed, not proved; no general polynomial bound for the regex rules is "
            "proved (an exponential regex is caught by exact step counts of the model on pump families derived from the regex trees)")
ASSUMPTIONS = ["one model step per character test / loop iteration / alternative tried approximates the re engine's work up to a constant"]
CAP = 3 * 10 ** 6


def correspond(ctx):
    return c08.correspond(ctx, n=ctx.scale(2000, 40000))


# ---------------------------------------------------------------------------
# pump families from the live regex trees
# ---------------------------------------------------------------------------

def rule_trees():
    lx = impl.L.PlyLexer("f").lex
    tree = sre_parse.parse(lx.lexretext[0], lx.lexreflags)
    cre = lx.lexre[0][0]
    out = []
    for alt in tree[0][1][1]:
        gidx = alt[0][1][0]
        name = [n for n, i in cre.groupindex.items() if i == gidx][0]
        out.append((name[2:], alt[0][1][3]))
    return out


def repeats(sub, path=()):
    """paths of the unbounded repetitions in a sub-pattern"""
    out = []
    for i, (op, av) in enumerate(sub):
        p = path + (i,)
        if op is C.MAX_REPEAT:
            lo, hi, body = av
            if hi is C.MAXREPEAT:
                out.append(p)
            out += repeats(body, p + ("r",))
        elif op is C.SUBPATTERN:
            out += repeats(av[3], p + ("s",))
        elif op is C.BRANCH:
            for j, a in enumerate(av[1]):
                out += repeats(a, p + ("b", j))
        elif op is C.ASSERT_NOT:
            pass
    return out


POOL = "a0 x*/\"'\\\n.e-+_;:<"


def pick_in(items, rng):
    neg = False
    chars = []
    for op, av in items:
        if op is C.NEGATE:
            neg = True
        elif op is C.LITERAL:
            chars.append(chr(av))
        elif op is C.RANGE:
            chars.append(chr(rng.randint(av[0], av[1])))
        elif op is C.CATEGORY:
            chars.append("7")
    if not neg:
        return rng.choice(chars)
    excluded = set()
    for op, av in items:
        if op is C.LITERAL:
            excluded.add(chr(av))
        elif op is C.RANGE:
            excluded |= {chr(c) for c in range(av[0], min(av[1], av[0] + 300) + 1)}
    cand = [c for c in POOL if c not in excluded and c != "\n"] or ["~"]
    return rng.choice(cand)


def sample(sub, rng, target, n, path=()):
    """a string of the sub-pattern's language in which the repetition at [target] iterates n times
    (alternatives on the way to the target are chosen to reach it)"""
    out = []
    for i, (op, av) in enumerate(sub):
        p = path + (i,)
        on_path = target[:len(p)] == p
        if op is C.LITERAL:
            out.append(chr(av))
        elif op is C.NOT_LITERAL:
            out.append("a" if av != ord("a") else "b")
        elif op is C.ANY:
            out.append("a")
        elif op is C.IN:
            out.append(pick_in(av, rng))
        elif op is C.SUBPATTERN:
            out.append(sample(av[3], rng, target, n, p + ("s",)))
        elif op is C.BRANCH:
            alts = av[1]
            j = None
            if on_path and len(target) > len(p) + 1 and target[len(p)] == "b":
                j = target[len(p) + 1]
            if j is None:
                j = rng.randrange(len(alts))
            out.append(sample(alts[j], rng, target, n, p + ("b", j)))
        elif op is C.MAX_REPEAT:
            lo, hi, body = av
            if target == p:
                k = max(n, lo)
            elif on_path:
                k = max(lo, 1)
            else:
                k = lo if hi is C.MAXREPEAT or hi > lo + 1 else rng.randint(lo, hi)
                k = max(k, lo)
            for _ in range(k):
                out.append(sample(body, rng, target, n, p + ("r",)))
        elif op in (C.ASSERT_NOT, C.AT):
            pass
    return "".join(out)


def families(rng):
    """(name, generator n -> text)"""
    fams = []
    for name, tree in rule_trees():
        for t in repeats(tree):
            for variant in ("match", "trunc", "bad"):
                def gen(n, tree=tree, t=t, variant=variant, seed=rng.random()):
                    import random
                    r = random.Random(seed)
                    s = sample(tree, r, t, n)
                    if variant == "trunc":
                        s = s[:-1]
                    elif variant == "bad":
                        s = s[:-1] + "\x01"
                    return "int x; " + s
                fams.append(("%s@%s/%s" % (name, "".join(str(x) for x in t), variant), gen))
    # hand-written lexical families named by the property
    extra = {
        "unterminated_comment": lambda n: "int x; /*" + "a*\n" * n,
        "unterminated_comment_stars": lambda n: "/*" + "*" * n + " ",
        "unterminated_string": lambda n: "const char* s = \"" + "ab\\n" * n,
        "unterminated_char": lambda n: "char c = '" + "\\x41" * n,
        "escape_run": lambda n: "\"" + "\\\\" * n + "\"" ,
        "octal_escape_run": lambda n: "'" + "\\1" * n,
        "digit_run": lambda n: "int x = " + "1" * n + "'" * 3 + ";",
        "float_run": lambda n: "double d = " + "1" * n + "." + "2" * n + "e" + "9" * n + "x;",
        "hexfloat_run": lambda n: "0x" + "f'" * n + ".p",
        "slashes": lambda n: "/" * n, "backslashes": lambda n: "\\" * n + "\n", "quotes": lambda n: "'" * n,
        "dots": lambda n: "." * n, "name_run": lambda n: "a" * n + "$",
        "line_comment_run": lambda n: "//" + "/*" * n, "directive_run": lambda n: "#" + " " * n + "x",
    }
    for k, g in extra.items():
        fams.append((k, g))
    return fams


PARSER_FAMILIES = {
    "paren_nest": lambda n: "int x = " + "(" * n + "1" + ")" * n + ";",
    "paren_unbalanced": lambda n: "int x = " + "(" * n + "1;",
    "closers_only": lambda n: "int x = (" + "]" * n + ");",
    "bracket_nest": lambda n: "int x = " + "[" * n + "]" * n + ";",
    "brace_body": lambda n: "void f() " + "{" * n + "}" * n,
    "angle_nest": lambda n: "A" + "<A" * n + ">" * n + " v;",
    "angle_unclosed": lambda n: "int x = a " + "< b " * n + ";",
    "angle_in_paren": lambda n: "int x = (" + "a < " * n + "b" + " ]" * n + ");",
    "ptr_run": lambda n: "int " + "*" * n + "p;",
    "fnptr_nest": lambda n: "int " + "(*" * n + "x" + ")" * n + ";",
    "ns_nest": lambda n: "namespace a {" * n + "}" * n,
    "class_nest": lambda n: "struct S {" * n + "};" * n,
    "param_run": lambda n: "void f(" + "int a, " * n + "int b);",
    "template_params": lambda n: "template <" + "typename T, " * n + "typename U> struct S;",
    "decl_run": lambda n: "int x;\n" * n,
    "attr_nest": lambda n: "[[a(" + "(" * n + ")" * n + ")]] int x;",
    "ctor_init": lambda n: "struct S { S() : " + "a(1), " * n + "b(2) {} };",
    "array_dims": lambda n: "int a" + "[2]" * n + ";",
    "qualified_name": lambda n: "int " + "a::" * n + "b;",
    "enum_values": lambda n: "enum E { " + "a = 1, " * n + "z };",
    "string_concat": lambda n: "const char* s = " + "\"a\" " * n + ";",
    "requires_chain": lambda n: "template <typename T> requires " + "A<T> && " * n + "B<T> void f();",
    # nested template arguments: types, expressions that start like a type (both readings are tried), function types
    "targ_expr_nest": lambda n: "A<" + "B<" * n + "int" + ">::value + 1" * n + "> x;",
    "targ_fn_nest": lambda n: "F<void(" * n + "int" + ")>" * n + " v;",
    "targ_paren_nest": lambda n: "A<" + "(B<" * n + "1" + ">::v)" * n + "> x;",
    "targ_list_nest": lambda n: "A<" + "B<int, " * n + "char" + ", 3>" * n + "> x;",
    "targ_ptr_nest": lambda n: "A<" + "B<" * n + "int" + ">*" * n + "> x;",
    "default_arg_nest": lambda n: "void f(int a = " + "g(" * n + "1" + ")" * n + ");",
    "decltype_nest": lambda n: "decltype(" * n + "x" + ")" * n + " v;",
    "init_brace_nest": lambda n: "int x" + "{" * n + "}" * n + ";",
    "template_template_nest": lambda n: "template <" + "template <" * n + "typename" + "> class" * n + " T> struct S;",
    "fn_returning_fnptr": lambda n: "int " + "(*" * n + "f(int)" + ")(int)" * n + ";",
    "using_alias_nest": lambda n: "using T = " + "A<" * n + "int" + "[3]>" * n + ";",
}


class Timeout(BaseException):      # not an Exception: parse() turns every Exception into a CxxParseError
    pass


def _alarm(signum, frame):
    raise Timeout()


def timed(fn, arg, limit):
    signal.signal(signal.SIGALRM, _alarm)
    signal.alarm(limit)
    t0 = time.process_time()
    try:
        try:
            fn(arg)
        except Timeout:
            raise
        except Exception:
            pass
        return time.process_time() - t0
    except Timeout:
        return None
    finally:
        signal.alarm(0)


def lex_only(text):
    lx = impl.L.PlyLexer("f")
    lx.input(text)
    while lx.token() is not None:
        pass


def model_steps(texts):
    lines = [[21, CAP] + [ord(c) for c in t] for t in texts]
    return [o[0] for o in run_driver(lines)]


def poly_ok(vals, sizes):
    """vals[i] = cost at sizes[i] (doubling). polynomial iff no doubling multiplies the cost by more than 2^3.5"""
    # pump texts are random, so the counts are noisy: compare every new maximum with the previous maximum
    # (an envelope), allowing 2^3.5 per doubling of the size between the two
    import math
    best, best_n = vals[0], sizes[0]
    for n, b in zip(sizes[1:], vals[1:]):
        if b > best:
            if best > 50 and b / best > 11.5 ** math.log2(n / best_n):
                return False
            best, best_n = b, n
    return True


def search(ctx, boost=False):
    s = Search()
    s.rule = ("pump families derived from the live regex trees (every unbounded repetition of every token rule driven n times, then matched / "
              "truncated / broken) + hand-written lexical families + recursive parser constructs (nesting depth, long lists), at doubling "
              "sizes; oracles: exact step counts of the extracted cost model (cap %d) must grow polynomially (no doubling multiplies them by "
              ">11.5), and CPU time of the implementation must not time out nor grow super-polynomially; non-trivial = family x size; "
              "distinct = distinct text" % CAP)
    rng = ctx.rng
    fams = families(rng)
    sizes = [8, 16, 32, 64] if not ctx.thorough else [8, 16, 32, 64, 128, 256]
    limit = 10 if not ctx.thorough else 30
    # model step counts
    texts = []
    for name, gen in fams:
        for n in sizes:
            texts.append(gen(n))
    steps = model_steps(texts)
    k = 0
    for name, gen in fams:
        vals = steps[k:k + len(sizes)]
        k += len(sizes)
        s.evaluations += len(sizes)
        s.count("model:" + name.split("@")[0])
        for n in sizes:
            s.nontrivial.add((name, n))
        if max(vals) > CAP or not poly_ok(vals, sizes):
            bad_n = sizes[-1]
            s.violations.append(dict(what="family %s: model step counts %s at sizes %s are not polynomial (cap %d)" % (name, vals, sizes, CAP),
                                     case=dict(kind="lexfam", name=name, text=gen(bad_n), sizes=sizes)))
    # implementation timing on lexical families (larger sizes)
    big = [256, 1024, 4096] if not ctx.thorough else [1024, 4096, 16384]
    for name, gen in fams:
        times = []
        for n in big:
            t = timed(lex_only, gen(n), limit)
            s.evaluations += 1
            times.append(t)
            if t is None:
                break
        s.count("impl-lex")
        if None in times or (times[-1] > 1.0 and times[0] > 0.001 and times[-1] / max(times[0], 1e-4) > 16 ** 3.5):
            s.violations.append(dict(what="family %s: lexing time %s at sizes %s (limit %ds)" % (name, times, big[:len(times)], limit),
                                     case=dict(kind="lextime", name=name, text=gen(big[len(times) - 1]), limit=limit)))
    # parser families
    psz = [50, 100, 200, 400] if not ctx.thorough else [100, 200, 400, 800, 1600]
    for name, gen in PARSER_FAMILIES.items():
        times = []
        for n in psz:
            t = timed(impl.parse_string, gen(n), limit)
            s.evaluations += 1
            s.nontrivial.add((name, n))
            times.append(t)
            if t is None:
                break
        s.count("impl-parse")
        bad = None in times
        if not bad and times[-1] > 2.0:
            r = times[-1] / max(times[0], 1e-3)
            if r > (psz[-1] / psz[0]) ** 3.5:
                bad = True
        if bad:
            s.violations.append(dict(what="parser family %s: time %s at sizes %s (limit %ds)" % (name, times, psz[:len(times)], limit),
                                     case=dict(kind="parsetime", name=name, text=gen(psz[len(times) - 1]), limit=limit)))
    s.samples = [dict(family=fams[0][0], text=fams[0][1](8)), dict(family="angle_nest", text=PARSER_FAMILIES["angle_nest"](6))]
    return s


def replay(ctx, case):
    k = case.get("kind")
    if k == "lexfam":
        v = model_steps([case["text"]])[0]
        t = timed(lex_only, case["text"], 10)
        if v > CAP or t is None:
            return ["model steps %d (cap %d), implementation lexing time %s" % (v, CAP, t)]
        return []
    if k in ("lextime", "parsetime"):
        fn = lex_only if k == "lextime" else impl.parse_string
        t = timed(fn, case["text"], case.get("limit", 10))
        return ["still times out"] if t is None else []
    return []


LEVEL_TEXT = ("Proved in Coq about cost models: the token loop makes at most one iteration per input character (lexer_iterations_linear, from "
              "the certified non-nullability of the regenerated rules); token reads plus match-stack visits of _consume_balanced_tokens are "
              "bounded by a quadratic in the input, so deep or unbalanced nesting cannot blow up (balanced_cost_polynomial_partial); "
              "_discard_contents reads each token once (discard_cost_linear). No general polynomial theorem for the backtracking regexes: "
              "instead the exact step counts of the extracted step-counting matcher over the REGENERATED rules are computed on pump families "
              "derived from the live regex trees (every unbounded repetition, matched/truncated/broken) and must grow polynomially; CPU time "
              "of the real lexer and parser on the same families and on recursive constructs must not time out or grow super-polynomially.")
LEVEL_NOTE = ("Trusted: Coq kernel, translator, extraction, driver, harness. PARTIAL: the regex cost clause is decided by exact model counts on "
              "generated families (a test of the model, not a theorem) and by timing; CPython's re engine is modelled, not verified.")
TECHNIQUE = "Coq cost-bound proofs for loop and token consumers + exact step counts of the extracted cost model on regex-derived pump families + timing search"

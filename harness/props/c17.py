"""C17 -- Formatted types parse back to the same type."""
import dataclasses

from harness.core import Corr, Search, run_driver
from harness import impl, decl, blocks
from harness.props import c02
from cxxheaderparser.simple import parse_string
from cxxheaderparser import types as T

PID = "C17"
TITLE = "Formatted types parse back to the same type"
THEOREM_FILE = "Props/C17.v"
MODELLED = ("Parse/DeclSpec.v D / decl_toks / params_toks mirror, at token level, _format_declarator of Type, Pointer, Reference, MoveReference, "
            "Array, FunctionType, format_decl and the format() of a function argument; the string-level spacing decisions of the formatters, the "
            "formatters of PQName, NameSpecifier, TemplateSpecialization, TemplateArgument and Value, noexcept / trailing-return / calling-convention "
            "rendering are NOT modelled: they are covered by the round-trip search on the real formatters")
ASSUMPTIONS = c02.ASSUMPTIONS + ["base type names are single identifiers or void in the model; richer names only in the search"]

KNOWN_CLASSIFIERS = {
    "alias_of_function_type": lambda case: case.get("ctx") == "alias" and case.get("outer") == "F",
    "dbl_rbracket_adjacent": lambda case: "]]" in case.get("source", ""),
    "sizeof_pack_flag": lambda case: case.get("kind") == "harvest" and "sizeof ... (" in case.get("formatted", ""),
}


def KNOWN_WITNESS_CHECK(entry):
    if entry["id"] == "F28":
        d = parse_string(entry["witness"])
        a = d.namespace.variables[0].type.typename.segments[0].specialization.args[0]
        return a.param_pack and a.format().endswith("...")
    if entry["id"] == "F8b":
        try:
            parse_string(entry["witness"])
            return False
        except impl.CxxParseError:
            return True
    if entry["id"] == "F26b":
        try:
            parse_string(entry["witness"])
            return False
        except impl.CxxParseError:
            return True
    return False


NAMES = [None, 'x', '_buf', None, 'x_', '__y', 'A1', 'operator_']


def lex_all(text):
    lx = impl.L.LexerTokenStream(None, text + "\n")
    out = []
    while True:
        t = lx.token_eof_ok()
        if t is None:
            break
        out.append((t.type, t.value))
    return out


# ---------------------------------------------------------------------------
# correspondence: the model printer D vs the real formatters

def corr_trees(ctx):
    rng = ctx.rng
    trees = list(decl.enum_types(4 if ctx.thorough else 3))
    for _ in range(ctx.scale(1500, 30000)):
        trees.append(decl.rand_type(rng, rng.choice([3, 5, 7, 9])))
    return trees


def correspond(ctx):
    corr = Corr()
    trees = corr_trees(ctx)
    lines, meta = [], []
    for i, t in enumerate(trees):
        names = decl.Names()
        nm = NAMES[i % len(NAMES)]
        lines.append([81, 0 if nm is None else names.id(nm) + 1] + decl.enc_type(t, names))
        meta.append((t, nm, names))
    outs = run_driver(lines)
    for (t, nm, names), o in zip(meta, outs):
        corr.cases += 1
        r = decl.to_real(t)
        if nm is None:
            text = r.format()
            kind = "format"
        else:
            text = r.format_decl(nm)
            kind = "format_decl"
        corr.dist[kind] = corr.dist.get(kind, 0) + 1
        real = [(ty, v) for ty, v in lex_all(text)]
        if o[0] != 0:
            corr.disagreements.append(dict(case=dict(kind='fmt', tree=repr(t), name=nm), model="decode error", impl=text))
            continue
        mtoks = o[1:]
        model = [(impl.TT[mtoks[k]], (names.rev[mtoks[k + 1]] if mtoks[k + 1] else impl.TT[mtoks[k]])) for k in range(0, len(mtoks), 2)]
        # keyword / punctuation tokens carry no value in the model: compare types, and values of NAME tokens and sizes
        def canon(l):
            return [(ty, v if ty in ("NAME", "INT_CONST_DEC") else ty) for ty, v in l]
        if canon(model) != canon(real):
            corr.disagreements.append(dict(case=dict(kind='fmt', tree=repr(t), name=nm),
                                           model=' '.join(v for _, v in model), impl=text,
                                           what="the %s of %s lexes to `%s`; the model printer gives `%s`" % (kind, decl.show(t, nm), text, ' '.join(v for _, v in model))))
    corr.samples = [dict(tree=decl.show(meta[300][0]), formatted=decl.to_real(meta[300][0]).format_decl('x'))]
    corr.note = ("for every type tree of the C02 generator (exhaustive small, random deep): the real format() / format_decl(name) string, lexed by the "
                 "real lexer, vs the tokens of the extracted model printer D (Parse/DeclSpec.v), alternating named and abstract")
    return corr


# ---------------------------------------------------------------------------
# search: round trip through the real formatters and the real parser

_BASE_CACHE = {}


def real_base(name, c, v):
    key = name
    if key not in _BASE_CACHE:
        d = parse_string(name + " v_;")
        _BASE_CACHE[key] = d.namespace.variables[0].type
    b = _BASE_CACHE[key]
    return T.Type(b.typename, const=c, volatile=v)


def to_real_rich(t):
    k = t[0]
    if k == 'B':
        return real_base(t[1], t[2], t[3])
    if k == 'P':
        return T.Pointer(to_real_rich(t[1]), const=t[2], volatile=t[3])
    if k == 'R':
        return T.Reference(to_real_rich(t[1]))
    if k == 'M':
        return T.MoveReference(to_real_rich(t[1]))
    if k == 'A':
        return T.Array(to_real_rich(t[1]), T.Value([T.Token(s) for s in t[2]]) if t[2] else None)
    return T.FunctionType(to_real_rich(t[1]), [T.Parameter(to_real_rich(p), n) for p, n in t[2]], vararg=t[3])


def positions(t, r, nm='x'):
    """(position, source, extractor, expected object)"""
    out = []
    if decl.var_ok(t):
        out.append(('variable', r.format_decl(nm) + ';', lambda d: (d.namespace.variables[0].name.format(), d.namespace.variables[0].type), (nm, r)))
        p = T.Parameter(r, nm)
        out.append(('parameter', 'void f(' + p.format() + ');', lambda d: d.namespace.functions[0].parameters[0], p))
        p0 = T.Parameter(r, None)
        out.append(('abstract parameter', 'void f(int a, ' + p0.format() + ');', lambda d: d.namespace.functions[0].parameters[1], p0))
    if not decl.is_void(t):
        out.append(('alias', 'using A = ' + r.format() + ';', lambda d: d.namespace.using_alias[0].type, r))
        out.append(('typedef', 'typedef ' + r.format_decl(nm) + ';', lambda d: (d.namespace.typedefs[0].name, d.namespace.typedefs[0].type), (nm, r)))
        out.append(('template argument', 'X<' + r.format() + '> v;', lambda d: d.namespace.variables[0].type.typename.segments[0].specialization.args[0].arg, r))
    return out


def check_pos(pos, src, get, want):
    try:
        d = parse_string(src)
    except (impl.CxxParseError, AssertionError) as e:
        return "%s: the formatted text `%s` is rejected: %s" % (pos, src, str(e)[:100])
    try:
        got = get(d)
    except Exception as e:
        return "%s: the formatted text `%s` is not reported as the expected declaration" % (pos, src)
    if got != want:
        try:
            g = got[1].format() if isinstance(got, tuple) else got.format()
        except Exception:
            g = repr(got)[:120]
        return "%s: the formatted text `%s` parses back to `%s`" % (pos, src, g)
    return None


def harvest(o, acc):
    """all type objects inside a parse result"""
    if isinstance(o, (T.Type, T.Pointer, T.Reference, T.MoveReference, T.Array, T.FunctionType)):
        acc.append(o)
    if dataclasses.is_dataclass(o):
        for f in dataclasses.fields(o):
            harvest(getattr(o, f.name), acc)
    elif isinstance(o, list):
        for x in o:
            harvest(x, acc)
    elif isinstance(o, dict):
        for x in o.values():
            harvest(x, acc)


def check_harvested(r):
    """a type the parser produced: format_decl / format parse back (typedef position accepts every kind)"""
    try:
        src = 'typedef ' + r.format_decl('x_') + ';'
    except Exception as e:
        return "format_decl raised %s" % type(e).__name__, None
    try:
        d = parse_string(src)
        got = d.namespace.typedefs[0].type
        nm = d.namespace.typedefs[0].name
    except Exception as e:
        return "the formatted text `%s` is rejected / not a typedef: %s" % (src, str(e)[:100]), src
    if nm != 'x_' or got != r:
        return "the formatted text `%s` parses back to `%s`" % (src, got.format_decl(nm) if hasattr(got, "format_decl") else got), src
    return None, src


NOEXCEPTS = ["", " noexcept", " noexcept(true)", " noexcept(noexcept(g()))", " noexcept(sizeof(int) > 2)"]
CONVS = ["", "__stdcall ", "__cdecl ", "__fastcall "]


def extras_sources(rng, n):
    """declarations whose types carry the extras of function types: exception specifications, trailing return types,
    calling conventions, varargs, in every combination, as typedef'd function types, function pointers and template arguments"""
    out = []
    for _ in range(n):
        ret = " ".join(decl.print_decl(c02.rich_type(rng, 1) or ('B', 'int', False, False), None))
        if ret.startswith("void") and rng.random() < 0.5:
            ret = "int"
        ps = []
        for i in range(rng.choice([0, 1, 2])):
            t = c02.rich_type(rng, rng.choice([0, 1, 2]))
            if t is None or not decl.var_ok(t):
                t = ('B', 'int', False, False)
            ps.append(" ".join(decl.print_decl(t, rng.choice([None, 'a%d' % i]))))
        if rng.random() < 0.2:
            ps.append("...")
        params = ", ".join(ps)
        ne = rng.choice(NOEXCEPTS)
        trailing = rng.random() < 0.5
        form = rng.choice(["fn", "fn", "ptr", "targ"])
        name = "F%d" % len(out)
        if form == "fn":
            if trailing:
                out.append("typedef auto %s(%s)%s -> %s;" % (name, params, ne, ret))
            else:
                out.append("typedef %s %s(%s)%s;" % (ret, name, params, ne))
        elif form == "ptr":
            conv = rng.choice(CONVS)
            if trailing:
                out.append("auto (%s*%s)(%s) -> %s;" % (conv, name, params, ret))
            else:
                out.append("%s (%s*%s)(%s);" % (ret, conv, name, params))
        else:
            if trailing:
                out.append("std::function<auto(%s) -> %s> %s;" % (params, ret, name))
            else:
                out.append("std::function<%s(%s)> %s;" % (ret, params, name))
    return out


def harvest_ok(r):
    """restrict to what format_decl is documented to render: skip anonymous / auto-named pieces"""
    txt = r.format()
    return "<<" not in txt and "anon" not in txt and "operator" not in txt


def search(ctx, boost=False):
    s = Search()
    rng = ctx.rng
    depth = 4 if (ctx.thorough or boost) else 3
    s.rule = ("every legal type tree of <=%d constructors (exhaustive, small alphabets) and random trees to depth 9 with rich base names, built as the "
              "parser's dataclasses, formatted by the real format_decl / format / argument format and re-parsed in variable, named and abstract "
              "parameter, alias, typedef and template-argument position: expected an equal object and the same name; plus every type object inside "
              "the parse results of the test-suite corpus and of generated programs, formatted and re-parsed as a typedef. non-trivial = tree with "
              ">=2 constructors or a parameter list, or a harvested type that is not a plain name; distinct = distinct (type, position)" % depth)
    trees = list(decl.enum_types(depth))
    trees.append(('A', ('B', 'Foo', False, False), ('K', '[', '2', ']')))      # known finding F8b
    for _ in range(ctx.scale(400, 8000) * (3 if boost else 1)):
        t = c02.rich_type(rng, rng.choice([2, 4, 6, 9]))
        if t is not None:
            trees.append(t)
    for i, t in enumerate(trees):
        try:
            r = to_real_rich(t)
        except Exception:
            continue
        nm = [n for n in NAMES if n][i % 6]
        for pos, src, get, want in positions(t, r, nm):
            s.evaluations += 1
            s.count(pos)
            if decl.depth_of(t) >= 2 or any(l[0] == 'F' for l in decl.layers(t)[1]):
                s.nontrivial.add((t, pos))
            msg = check_pos(pos, src, get, want)
            if msg:
                s.violations.append(dict(what=msg, case=dict(kind='pos', ctx=pos, outer=t[0], tree=repr(t), source=src, name=nm)))
    srcs = list(impl.corpus())
    for _ in range(ctx.scale(20, 400)):
        srcs.append(blocks.gen_program(rng, rng.choice([4, 10, 25])).source())
    srcs += extras_sources(rng, ctx.scale(150, 3000))
    seen = set()
    for src in srcs:
        try:
            d = parse_string(src)
        except Exception:
            continue
        acc = []
        harvest(d, acc)
        for r in acc:
            try:
                key = r.format_decl('x_')
            except Exception:
                key = repr(r)
            if key in seen or not harvest_ok(r):
                continue
            seen.add(key)
            s.evaluations += 1
            s.count("harvested")
            if not isinstance(r, T.Type):
                s.nontrivial.add(key)
            msg, fsrc = check_harvested(r)
            if msg:
                s.violations.append(dict(what="harvested type: " + msg, case=dict(kind='harvest', source=src, formatted=key)))
    s.samples = [dict(tree=decl.show(trees[150]), formatted=to_real_rich(trees[150]).format_decl('x'))]
    return s


def replay(ctx, case):
    k = case.get("kind")
    if k == 'fmt':
        t = eval(case["tree"])
        names = decl.Names()
        nm = case.get("name")
        o = run_driver([[81, 0 if nm is None else names.id(nm) + 1] + decl.enc_type(t, names)])[0]
        r = decl.to_real(t)
        text = r.format() if nm is None else r.format_decl(nm)
        real = lex_all(text)
        mt = o[1:]
        model = [(impl.TT[mt[i]], names.rev[mt[i + 1]] if mt[i + 1] else impl.TT[mt[i]]) for i in range(0, len(mt), 2)]
        canon = lambda l: [(ty, v if ty in ("NAME", "INT_CONST_DEC") else ty) for ty, v in l]
        return [] if canon(model) == canon(real) else ["formatter and model printer differ on %s: `%s`" % (decl.show(t), text)]
    if k == 'pos':
        t = eval(case["tree"])
        r = to_real_rich(t)
        out = []
        for pos, src, get, want in positions(t, r, case.get("name", 'x')):
            if pos == case["ctx"]:
                m = check_pos(pos, src, get, want)
                if m:
                    out.append(m)
        return out
    if k == 'harvest':
        try:
            d = parse_string(case["source"])
        except Exception:
            return []
        acc = []
        harvest(d, acc)
        out = []
        for r in acc:
            try:
                if r.format_decl('x_') != case["formatted"]:
                    continue
            except Exception:
                continue
            m, _ = check_harvested(r)
            if m:
                out.append(m)
                break
        return out
    return []


LEVEL_TEXT = ("Proved in Coq for EVERY legal type tree (any depth; base types `[const][volatile] NAME|void`): the token sequence of format_decl(name) "
              "parses back to the same name and an equal tree (format_decl_parses_back), the type-id format() and an argument's format() parse "
              "back in parameter position (format_parses_back_as_parameter), formatted parameter lists parse back with their vararg flag "
              "(format_parameters_parse_back), and the formatter's parenthesisation is the reading-order text (formatter_is_inside_out). "
              "Tie: the real formatters' strings, lexed by the real lexer, equal the model printer's tokens on exhaustive small and random deep "
              "trees; the parser side is tied by C02's differential run. PARTIAL: rich names, template specializations, noexcept / trailing "
              "return / calling convention rendering and the string-level spacing are covered by the round-trip search on the real code only.")
LEVEL_NOTE = ("Trusted: Coq kernel, extraction, driver, harness codecs, the real lexer used to tokenise formatted strings. Hand-written model; "
              "agreement with types.py and parser.py is checked differentially on every run.")
TECHNIQUE = "Coq proof of print-then-parse identity for the formatter's token-level mirror (unbounded depth) + differential run against the real formatters + round-trip search incl. harvested parser output"

"""C11 -- Documentation comments attach to the declaration they adjoin, and only to it."""
import re

from harness.core import Corr, Search
from harness import impl
from harness.props import c09

PID = "C11"
TITLE = "Documentation comments attach to the declaration they adjoin, and only to it"
THEOREM_FILE = "Props/C11.v"
MODELLED = ("get_doxygen / get_doxygen_after / comment selection are mirrored by hand in Stream/TokBuf.v (op-trace replay ties them to the "
            "code); which handler forwards the doc value to which dataclass (the `doxygen` local of CxxParser.parse, _keep_doxygen, "
            "`doxygen = None` after the first declarator) lies in the un-modelled parser bulk: covered by the placement search")
ASSUMPTIONS = ["token offsets are unique (they are positions in the text)"]


def correspond(ctx):
    """op-trace replay on documented programs (doc scans are the ops of interest here)"""
    from harness import streamcorr, lexgen
    corr = Corr()
    rng = ctx.rng
    nops = 0
    ndox = 0
    srcs = []
    for _ in range(ctx.scale(250, 6000)):
        g = DocGen(rng)
        g.toplevel(rng.choice([1, 2, 4, 8]))
        srcs.append(g.source())
    srcs += [lexgen.mutate(rng, s) for s in rng.sample(srcs, len(srcs) // 5)]
    for s in srcs:
        rs, err, _ = streamcorr.record_parse(s)
        corr.cases += 1
        nops += len(rs.ops)
        ndox += sum(1 for o in rs.ops if o[0] in (9, 10))
        d = streamcorr.compare(rs, "<str>", s)
        if d:
            corr.disagreements.append(dict(case=dict(source=s), op_index=d[0], op=d[1], impl=d[2], model=d[3]))
    corr.dist["stream_ops_replayed"] = nops
    corr.dist["doxygen_ops_replayed"] = ndox
    corr.samples = [dict(source=srcs[0])]
    corr.note = "documented programs (all comment styles, trailing blanks, CRLF line ends) parsed with a recording stream; every get_doxygen / get_doxygen_after / token op is replayed on the extracted TokBuf model"
    return corr


_multi = re.compile("\n[\\s]+\\*")


def doc_text(style, word):
    """(source lines, expected doxygen text) of one documentation comment"""
    if style == "///":
        return ["/// %s" % word], "/// %s" % word
    if style == "//!":
        return ["//! %s" % word], "//! %s" % word
    if style == "/**":
        return ["/** %s */" % word], "/** %s */" % word
    if style == "/*!":
        return ["/*! %s */" % word], "/*! %s */" % word
    if style == "////":            # a row of slashes is still a '///' comment
        return ["//// %s" % word], "//// %s" % word
    if style == "/***":            # a banner is still a '/**' comment
        return ["/*** %s */" % word], "/*** %s */" % word
    if style == "///<":
        return ["///< %s" % word], "///< %s" % word
    if style == "/**ml":
        src = ["/**", " * %s" % word, "   * more", " */"]
        txt = _multi.sub("\n*", "\n".join(src))
        return src, txt
    raise ValueError(style)


STYLES = ["///", "///", "//!", "/**", "/*!", "/**ml", "////", "/***"]
PLAIN = ["// plain %d", "/* plain %d */", "/* multi\n   plain %d */"]


class DocGen:
    def __init__(self, rng):
        self.rng = rng
        self.n = 0
        self.lines = []
        self.expect = {}          # unique name -> expected doxygen (None or text)
        self.after_trailing = False

    def fresh(self):
        self.n += 1
        return self.n

    def block(self, indent):
        """a documentation block of 1-3 comments; returns (lines, text)"""
        k = self.rng.choice([1, 1, 2, 3])
        lines, texts = [], []
        for _ in range(k):
            st = self.rng.choice(STYLES)
            if st == "/**ml" and k > 1:
                st = "/**"
            src, txt = doc_text(st, "w%d" % self.fresh())
            lines += [indent + l for l in src]
            texts.append(txt)
        return lines, "\n".join(texts)

    def orphan_block(self, indent):
        """a doc block that belongs to nothing (in front of an access specifier or a closing brace)"""
        if self.after_trailing:
            self.lines.append("")
            self.after_trailing = False
        bl, _ = self.block(indent)
        self.lines += bl

    def decl(self, name, text, indent="", can_trail=False, second=None, keep_prefix=None):
        """emit one declaration `text` (may contain several lines) with a random doc placement"""
        rng = self.rng
        plan = rng.choice(["above", "above", "detached", "plain_above", "none", "none"] + (["trailing", "trailing", "plain_trailing"] if can_trail else []))
        if self.after_trailing and plan in ("above", "detached", "plain_above"):
            self.lines.append("")          # a doc line directly after a trailing doc comment would continue it
        self.after_trailing = False
        exp = None
        if plan == "above":
            bl, exp = self.block(indent)
            self.lines += bl
            if rng.random() < 0.3:
                self.lines.append(indent + rng.choice(PLAIN[:2]) % self.fresh())   # plain comment between: no effect
        elif plan == "detached":
            bl, _ = self.block(indent)
            self.lines += bl
            self.lines.append("")
        elif plan == "plain_above":
            self.lines.append(indent + rng.choice(PLAIN) % self.fresh())
        if keep_prefix:
            self.lines.append(indent + keep_prefix)
        body = text
        if plan == "trailing":
            st = rng.choice(["///", "//!", "/**", "/*!", "////", "/***", "///<"])
            src, exp = doc_text(st, "t%d" % self.fresh())
            body = text + " " + src[0]
            if rng.random() < 0.3 and st in ("///", "//!", "////", "///<"):
                src2, e2 = doc_text(rng.choice(["///", "//!", "////"]), "c%d" % self.fresh())
                self.lines.append(indent + body)
                self.lines.append(indent + src2[0])       # a doc line that directly continues the trailing one
                exp = exp + "\n" + e2
                body = None
            self.after_trailing = True
        elif plan == "plain_trailing":
            body = text + " " + rng.choice(PLAIN[:2]) % self.fresh()
        if body is not None:
            self.lines.append(indent + body)
        self.expect[name] = exp
        if second:
            self.expect[second] = None
        if plan in ("trailing",):
            self.lines.append("") if rng.random() < 0.5 else None

    def members(self, indent, budget):
        rng = self.rng
        for _ in range(budget):
            n = self.fresh()
            r = rng.random()
            if r < 0.35:
                if rng.random() < 0.3:
                    # several declarators: a comment behind the ';' trails the statement, i.e. documents its first declarator only
                    mid = rng.choice([", ", " = 1, ", "[2], *", " = k(1, 2), ", "{1, 2}, "])
                    self.decl("f%d" % n, "int f%d%sg%d;" % (n, mid, n), indent, can_trail=True, second="g%d" % n)
                elif rng.random() < 0.3:
                    # an initialiser that spans several lines: the trailing comment follows the closing ';'
                    init = rng.choice(["[2] = {\n%s  1,\n%s  2,\n%s}" % (indent, indent, indent), " =\n%s  0x0f |\n%s  0xf0" % (indent, indent),
                                       "{\n%s  3\n%s}" % (indent, indent)])
                    self.decl("f%d" % n, "int f%d%s;" % (n, init), indent, can_trail=True)
                else:
                    self.decl("f%d" % n, "int f%d;" % n, indent, can_trail=True)
            elif r < 0.55:
                # methods in every ending a statement can have (what ends the statement decides where the next declaration's
                # comments are looked for): a declaration, a body, `= 0` / `= default`, a trailing return type, an overloaded
                # operator, a conversion operator with and without a body
                form = rng.choice(["decl", "decl", "body", "const_body", "pure", "trailing", "trailing_body", "op", "op_body", "conv", "conv_body"])
                if form in ("conv", "conv_body") and "operator" not in self.expect:
                    self.decl("operator", "operator bool() const%s" % (";" if form == "conv" else " { return true; }"), indent)
                elif form in ("op", "op_body") and ("operator==" not in self.expect):
                    self.decl("operator==", "bool operator==(int o) const%s" % (";" if form == "op" else " { return o == 1; }"), indent)
                else:
                    text = {"decl": "void m%d();", "body": "void m%d() { int q = 0; }", "const_body": "int m%d() const { return 0; }",
                            "pure": "virtual void m%d() = 0;", "trailing": "auto m%d() -> int;", "trailing_body": "auto m%d() const -> int { return 1; }"}
                    self.decl("m%d" % n, text.get(form, "void m%d();") % n, indent)
            elif r < 0.65:
                self.decl("ua%d" % n, "using ua%d = int;" % n, indent)
            elif r < 0.75:
                a = rng.choice(["public", "private", "protected"])
                # a doc block in front of an access specifier belongs to nothing
                if rng.random() < 0.4:
                    self.orphan_block(indent)
                self.lines.append(indent + a + ":")
                self.after_trailing = False
            elif r < 0.85:
                self.decl("e%d" % n, "enum e%d { x%d };" % (n, n), indent)
            else:
                self.decl("fw%d" % n, "class fw%d;" % n, indent)

    def oneline(self, n, indent):
        """a block written on one line: the doc comment of the first member shares the line with the opening brace, a trailing doc
        comment shares it with the closing brace, or the next sibling (with its doc comment) follows the closing brace directly"""
        rng = self.rng
        if self.after_trailing:
            self.lines.append("")
            self.after_trailing = False
        key = rng.choice(["namespace", "namespace", "struct", "extern"])
        st = rng.choice(["/**", "/*!", "/***"])
        m = self.fresh()
        src, txt = doc_text(st, "w%d" % self.fresh())
        head = {"namespace": "namespace on%d {" % n, "struct": "struct on%d {" % n, "extern": 'extern "C" {'}[key]
        tail = "};" if key == "struct" else "}"
        # (a doc comment between two declarations on one line both trails the first and precedes the second: the statement
        # leaves its owner open, so that layout is not generated)
        form = rng.choice(["first", "first", "trailing", "sibling", "after-end"])
        if key != "extern":
            self.expect["on%d" % n] = None
        if form == "first":
            self.lines.append(indent + "%s %s int ov%d; %s" % (head, src[0], m, tail))
            self.expect["ov%d" % m] = txt
        elif form == "trailing":
            tsrc, ttxt = doc_text(rng.choice(["///<", "///", "//!"]), "t%d" % self.fresh())
            self.lines.append(indent + "%s int ov%d; %s" % (head, m, tsrc[0]))
            self.lines.append(indent + tail)
            self.expect["ov%d" % m] = ttxt
        elif form == "after-end":
            # the comment stands behind the closing brace: it is the next declaration's, not the last member's
            k = self.fresh()
            inner = "int ou%d;" % k if key != "enumlike" else ""
            if key == "struct" and rng.random() < 0.5:
                head, inner = "enum on%d {" % n, "ou%d" % k
            self.lines.append(indent + "%s %s %s %s int ov%d;" % (head, inner, tail, src[0], m))
            self.expect["ou%d" % k] = None
            self.expect["ov%d" % m] = txt
        else:
            self.lines.append(indent + "%s %s %s int ov%d;" % (head, tail, src[0], m))
            self.expect["ov%d" % m] = txt

    def toplevel(self, budget, indent=""):
        rng = self.rng
        for _ in range(budget):
            n = self.fresh()
            if rng.random() < 0.08:
                self.oneline(n, indent)
                continue
            r = rng.random()
            if r < 0.08:
                # declarations introduced by a specifier, a linkage specification or a decoration: the comment above belongs
                # to this declaration only, whatever dispatches it
                pre = rng.choice(["extern ", "static ", "inline ", "constexpr ", 'extern "C" ', "[[nodiscard]] ", "alignas(4) ",
                                  "__declspec(dllexport) ", "extern const "])
                if rng.random() < 0.5:
                    self.decl("sv%d" % n, "%sint sv%d%s;" % (pre, n, " = 3" if "constexpr" in pre else ""), indent, can_trail=True)
                else:
                    self.decl("sf%d" % n, "%sint sf%d(int a);" % (pre, n), indent)
            elif r < 0.2:
                if rng.random() < 0.3:
                    mid = rng.choice([" = 1, ", ", ", "[2], *", " = k(1, 2), ", "{1, 2}, "])
                    self.decl("v%d" % n, "int v%d%sw%d;" % (n, mid, n), indent, can_trail=True, second="w%d" % n)
                elif rng.random() < 0.3:
                    init = rng.choice(["[2] = {\n%s  1,\n%s  2,\n%s}" % (indent, indent, indent), " =\n%s  0x0f |\n%s  0xf0" % (indent, indent),
                                       " = f(1,\n%s      2)" % indent])
                    self.decl("v%d" % n, "int v%d%s;" % (n, init), indent, can_trail=True)
                else:
                    self.decl("v%d" % n, "int v%d;" % n, indent, can_trail=True)
            elif r < 0.3:
                kp = rng.choice([None, None, "[[deprecated]]", "template <typename T>", "__attribute__((unused))", "alignas(8)"])
                body = rng.choice(["(int a);", "(int a);", "(int a) { return; }", "(int a) noexcept;", "(int a) = delete;"])
                self.decl("fn%d" % n, "void fn%d%s" % (n, body), indent, keep_prefix=kp)
            elif r < 0.38:
                self.decl("ua%d" % n, "using ua%d = int;" % n, indent)
            elif r < 0.44:
                self.decl("fw%d" % n, "struct fw%d;" % n, indent)
            elif r < 0.5:
                self.decl("cc%d" % n, "template <typename T> concept cc%d = true;" % n, indent)
            elif r < 0.62:
                # enum with documented enumerators
                self.decl("en%d" % n, "enum en%d {" % n, indent)
                k = rng.randint(1, 4)
                for i in range(k):
                    m = self.fresh()
                    last = i == k - 1
                    val = rng.choice(["", "", " = 1", " = 1 << 2", " = f(1, 2)", " = (A | B)"])
                    sep = "" if (last and rng.random() < 0.7) else ","
                    self.decl("x%d" % m, "x%d%s%s" % (m, val, sep), indent + "  ", can_trail=True)
                # the closing brace, alone or followed by declarators of the enum type; a comment behind their ';' trails the
                # first declarator -- never an enumerator
                q = rng.random()
                if q < 0.5:
                    self.lines.append(indent + "};")
                    self.after_trailing = False
                else:
                    ev = self.fresh()
                    two = rng.random() < 0.3
                    text = "} ev%d%s;" % (ev, (", *pev%d" % ev) if two else "")
                    if rng.random() < 0.7:
                        src, exp = doc_text(rng.choice(["///<", "///", "//!", "/**"]), "t%d" % self.fresh())
                        self.lines.append(indent + text + " " + src[0])
                        self.expect["ev%d" % ev] = exp
                        self.after_trailing = True
                    else:
                        self.lines.append(indent + text)
                        self.expect["ev%d" % ev] = None
                        self.after_trailing = False
                    if two:
                        self.expect["pev%d" % ev] = None
            elif r < 0.8:
                key = rng.choice(["struct", "class"])
                self.decl("C%d" % n, "%s C%d {" % (key, n), indent)
                self.members(indent + "  ", rng.randint(0, 5))
                # a doc block in front of the closing brace belongs to nothing
                if rng.random() < 0.3:
                    self.orphan_block(indent + "  ")
                self.lines.append(indent + "};")
                self.after_trailing = False
            elif r < 0.92 and len(indent) < 6:
                self.decl("ns%d" % n, "namespace ns%d {" % n, indent)
                self.toplevel(rng.randint(0, 4), indent + "  ")
                if rng.random() < 0.3:
                    self.orphan_block(indent + "  ")
                self.lines.append(indent + "}")
                self.after_trailing = False
            else:
                self.decl("td%d" % n, "typedef int td%d;" % n, indent)
                del self.expect["td%d" % n]        # Typedef has no doxygen field

    def source(self):
        # line ends vary (trailing blanks, tabs, CRLF): none of this changes which lines are blank
        rng = self.rng
        crlf = rng.random() < 0.2
        out = []
        for l in self.lines:
            for piece in l.split("\n"):
                tail = rng.choice(["", "", "", " ", "  ", "\t"]) if rng.random() < 0.4 else ""
                if piece.rstrip().endswith("\\"):
                    tail = ""
                out.append(piece + tail + ("\r\n" if crlf else "\n"))
        return "".join(out)


def collect(data):
    """name -> doxygen for everything documentable in a ParsedData"""
    out = {}

    def nm(pq):
        seg = pq.segments[-1]
        return getattr(seg, "name", None)

    def ns(scope):
        for v in scope.variables:
            out[nm(v.name)] = v.doxygen
        for f in scope.functions:
            out[nm(f.name)] = f.doxygen
        for u in scope.using_alias:
            out[u.alias] = u.doxygen
        for f in scope.forward_decls:
            out[nm(f.typename)] = f.doxygen
        for c in scope.concepts:
            out[c.name] = c.doxygen
        for e in scope.enums:
            enum(e)
        for c in scope.classes:
            cls(c)
        for name, sub in scope.namespaces.items():
            out[name] = sub.doxygen
            ns(sub)

    def enum(e):
        out[nm(e.typename)] = e.doxygen
        for v in e.values:
            out[v.name] = v.doxygen

    def cls(c):
        out[nm(c.class_decl.typename)] = c.class_decl.doxygen
        for f in c.fields:
            out[f.name] = f.doxygen
        for m in c.methods:
            out[nm(m.name)] = m.doxygen
        for u in c.using_alias:
            out[u.alias] = u.doxygen
        for f in c.forward_decls:
            out[nm(f.typename)] = f.doxygen
        for e in c.enums:
            enum(e)
        for cc in c.classes:
            cls(cc)

    ns(data.namespace)
    return out


def norm(d):
    """trailing blanks at the end of a comment line belong to the comment token; they are not part of the plan"""
    if d is None:
        return None
    return "\n".join(l.rstrip() for l in d.replace("\r", "").split("\n"))


def check_docs(src, expect):
    try:
        data = impl.parse_string(src)
    except Exception as e:
        return "documented program does not parse: %s" % str(e)[:150]
    got = collect(data)
    for name, exp in expect.items():
        if name not in got:
            return "declaration %s is missing from the result" % name
        if norm(got[name]) != norm(exp):
            return "doxygen of %s is %r, expected %r" % (name, got[name], exp)
    # no text attributed twice
    seen = {}
    for name, d in got.items():
        if d is None:
            continue
        for line in d.split("\n"):
            if line in seen and re.search(r"[wtc]\d+", line):
                return "documentation line %r is attributed to both %s and %s" % (line, seen[line], name)
            seen[line] = name
    return None


def search(ctx, boost=False):
    s = Search()
    s.rule = ("AST-first documented programs: every documentable declaration (variables, functions, using aliases, forward declarations, "
              "concepts, enums and enumerators, classes, fields, methods, namespaces; second declarators; attribute/template prefixes) "
              "independently gets a uniquely worded doc block above (1-3 comments of 5 styles), a detached block, a trailing doc comment "
              "(optionally continued), a plain comment above/trailing, or nothing; doc blocks before access specifiers and closing braces; blocks written on one line (doc comment of the first member next to "
              "the opening brace, trailing comment, sibling after the closing brace); "
              "oracle: doxygen of every declaration equals the plan, no text attributed twice; non-trivial = program with >=1 doc comment; "
              "distinct = distinct source")
    rng = ctx.rng
    n = ctx.scale(1200, 30000) * (3 if boost else 1)
    for _ in range(n):
        g = DocGen(rng)
        g.toplevel(rng.choice([1, 2, 4, 8]))
        src = g.source()
        s.evaluations += 1
        if any(v is not None for v in g.expect.values()):
            s.nontrivial.add(src)
        s.count("decls=%d" % min(len(g.expect), 12))
        msg = check_docs(src, g.expect)
        if msg:
            s.violations.append(dict(what=msg, case=dict(kind="docs", source=src, expect=g.expect)))
        if len(s.samples) < 2 and len(g.expect) >= 4:
            s.samples.append(dict(source=src, expected=g.expect))
    return s


def replay(ctx, case):
    if case.get("kind") != "docs":
        return []
    m = check_docs(case["source"], case["expect"])
    return [m] if m else []


LEVEL_TEXT = ("Proved in Coq for every token stream: get_doxygen answers with exactly the comment tokens after the last NEWLINE token of "
              "the layout run in front of the first significant token, filtered to documentation styles, and consumes that run only "
              "(get_doxygen_spec, scan_is_block_after_last_newline); get_doxygen_after takes only comment tokens of the buffered line, in "
              "order, drops at most that line's NEWLINE token and touches nothing else (get_doxygen_after_spec); a comment token that "
              "contributed to an answer is gone from the stream, so it cannot be attributed twice (doc_linearity, doc_linearity_after); plain "
              "comments contribute no text (extract_doc_only). Tie: op-trace replay of real parses (doc responses compared token by token). "
              "How the parser hands the value to declarations (first declarator only, _keep_doxygen, access specifiers, block ends) is "
              "decided by the placement search over AST-first documented programs.")
LEVEL_NOTE = ("Trusted: Coq kernel, translator (sets), extraction, driver, harness. Parser-side hand-over of the doc value: search only. "
              "Text munging of /** */ blocks (whitespace before '*') is not part of the property and is taken from the implementation.")
TECHNIQUE = "Coq proof of the doc-scan specifications and linearity over the stream model + op-trace replay + AST-first doc-placement search"

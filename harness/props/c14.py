"""C14 -- Unparsed values carry exactly the source tokens of their expression."""
from harness.core import Corr, Search
from harness import impl, soups
from harness.props import c13
from cxxheaderparser import types as _types

PID = "C14"
TITLE = "Unparsed values carry exactly the source tokens of their expression"
THEOREM_FILE = "Props/C14.v"
MODELLED = ("Parse/Balanced.v mirrors _consume_value_until/_consume_balanced_tokens by hand; the value-position table "
            "(which consumer and slice every Value is built from) is regenerated from parser.py's AST; bespoke collectors "
            "(_parse_requires, pragma loop, sizeof... special case) are searched, not proved")
ASSUMPTIONS = ["expressions come from the token-level grammar Expr: a depth-0 '<' must be closed by '>' before the terminator "
               "(otherwise known finding F6)"]


def correspond(ctx):
    corr = c13.correspond(ctx, kinds=(2, 3))
    correspond_requires(ctx, corr)
    return corr


# ---------------------------------------------------------------------------
# requires-clauses: extracted requires_clause (Parse/Requires.v) vs the real _parse_requires on the same token lists

REQ_PIECES = [['C'], ['C', '<', 'T', '>'], ['is_small', '<', 'T', ',', '4', '>'], ['decltype', '(', 'x', ')'], ['K'], ['A', '<', 'B', '<', 'T', '>', '>'],
              ['decltype', '(', 'f', '(', 'a', ',', 'b', ')', ')'], ['V', '<', '(', 'a', '>', 'b', ')', '>']]
REQ_PARENS = [['(', 'sizeof', '(', 'T', ')', '>', '1', ')'], ['(', 'B', '<', 'T', '>', ')'], ['(', 'a', ',', 'b', ')'], ['(', ')'], ['(', 'x', '[', '1', ']', '{', '}', ')']]
REQ_OPS = [['&&'], ['||'], ['&&'], ['||'], ['=', '='], ['!', '='], ['<', '='], ['>', '='], ['+'], ['-'], ['*'], ['%'], ['^'], ['|'], ['&'], ['<<'], ['>'], ['>', '>']]
REQ_STOPS = [['void', 'f', '(', ')', ';'], [';'], ['{', '}'], ['=', 'delete', ';'], ['=', 'default', ';'], ['=', '0', ';'], ['int', 'x', ';'], ['const', 'T', '&', 'g', '(', ')', ';'],
             ['->', 'int', ';'], ['Foo', 'h', '(', ')', ';'], ['static', 'int', 'y', ';'], ['override', ';'], [',', 'x']]
REQ_WORDS = ['C', 'T', '(', ')', '<', '>', '::', '&&', '||', '=', '!', 'decltype', 'requires', '{', '}', ';', 'void', '[', ']', '3', ',', '+']


def gen_requires(rng):
    """(tokens behind `requires`, expected value or None)"""
    if rng.random() < 0.12:
        ps = rng.choice([[], ['T', 't'], ['T', 'a', ',', 'U', 'b']])
        body = rng.choice([[], ['t', '.', 'x', ';'], ['{', 'a', '+', 'b', '}', '->', 'C', '<', 'T', '>', ';'], ['typename', 'T', '::', 'type', ';']])
        toks = ['requires', '('] + ps + [')', '{'] + body + ['}']
        return toks + list(rng.choice(REQ_STOPS)), tuple(toks)

    def primary():
        if rng.random() < 0.3:
            p = list(rng.choice(REQ_PARENS))
            return list(p), list(p), True
        written, value = [], []
        if rng.random() < 0.15:
            written.append('::'); value.append('::')
        n = rng.choice([1, 1, 1, 2, 3])
        last = None
        for i in range(n):
            pc = list(rng.choice(REQ_PIECES))
            if i:
                written.append('::')        # not reported (F29): the model mirrors the code
            written += pc; value += pc
            last = pc
        return written, value, last[-1] == '>'
    w, v, closed = primary()
    for _ in range(rng.choice([0, 0, 1, 1, 2, 3])):
        op = list(rng.choice(REQ_OPS))
        while not closed and op[0] in ('<', '<<'):
            op = list(rng.choice(REQ_OPS))       # a '<' behind a bare name opens template arguments (inherent ambiguity)
        w2, v2, closed = primary()
        w += op + w2; v += op + v2
    stop = list(rng.choice(REQ_STOPS))
    return w + stop, tuple(v)


def real_requires(strs):
    from harness import decl
    toks = [impl.mk_tok(decl.tok_type(s), s) for s in strs]
    p = impl.parser_over(toks)
    try:
        v = p._parse_requires(impl.mk_tok('requires', 'requires'))
    except (impl.CxxParseError, EOFError):
        return ('err',)
    except (AssertionError, IndexError, KeyError, AttributeError, TypeError, RecursionError):
        return ('other',)
    return ('ok', tuple(t.value for t in v.tokens), len(p.lex.tokbuf))


def correspond_requires(ctx, corr):
    from harness import decl
    from harness.props import c02
    from harness.core import run_driver
    rng = ctx.rng
    cases = []
    for _ in range(ctx.scale(1500, 30000)):
        toks, exp = gen_requires(rng)
        cases.append((toks, exp, 'requires-valid'))
        r = rng.random()
        if r < 0.3:
            cases.append((c02.mutate(rng, toks) or [';'], None, 'requires-mutated'))
        elif r < 0.4:
            cases.append(([rng.choice(REQ_WORDS) for _ in range(rng.choice([1, 2, 3, 5, 8]))], None, 'requires-random'))
    lines, nms = [], []
    for toks, _, _ in cases:
        names = decl.Names()
        lines.append([107] + decl.enc_tokens(toks, names))
        nms.append(names)
    outs = run_driver(lines)
    for (toks, exp, kind), o, names in zip(cases, outs, nms):
        corr.cases += 1
        if o[0] == 0:
            n = o[2]
            m = ('ok', tuple(names.rev[o[3 + 2 * j + 1]] if o[3 + 2 * j + 1] else impl.TT[o[3 + 2 * j]] for j in range(n)), o[1])
        else:
            m = ('err', o[1])
        r = real_requires(toks)
        k = kind + ":" + (m[0] if m[0] == 'ok' else 'err%d' % m[1]) + "/" + r[0]
        corr.dist[k] = corr.dist.get(k, 0) + 1
        msg = None
        if r[0] != 'other':
            if m[0] == 'err' and m[1] == 9:
                msg = "model ran out of budget"
            elif (m[0] == 'ok') != (r[0] == 'ok'):
                msg = "model %s, implementation %s" % (m[:2], r[:2])
            elif m[0] == 'ok' and m != r:
                msg = "model %s, implementation %s" % (m, r)
        if msg is None and exp is not None and (m[0] != 'ok' or m[1] != exp):
            msg = "model does not decode the printed requires-clause: %s, written value %s" % (m, exp)
        if msg:
            corr.disagreements.append(dict(case=dict(kind='corr-requires', tokens=toks), model=str(m)[:300], impl=str(r)[:300],
                                           what="requires %s: %s" % (' '.join(toks), msg)))


_LEX_CACHE = {}


def lex_values(text):
    if text not in _LEX_CACHE:
        ls = impl.L.LexerTokenStream("<s>", text)
        out = []
        while True:
            t = ls.token_eof_ok()
            if t is None:
                break
            out.append(t.value)
        _LEX_CACHE[text] = out
    return _LEX_CACHE[text]


PLAIN = ["x", "y1", "42", "0x1F", "1.5f", "'a'", "'\\''", "\"s,;)\"", "\"(\"", "+", "-", "*", "/", "%", "!", "&&", "||",
         "->", "::", ".", "?", ":", "<<", "sizeof", "nullptr", "true", "new", "this", "~", "12_km", "\"s\"_x", "u8\"z\"",
         "static_cast", "==", "!=", "|", "^", "&", "int", "unsigned", "typename", "...", "=", ",", ";", ">", ")", "}", "]"]


def gen_expr(rng, budget, terms, min_len=1):
    """token strings of an Expr(terms) expression (BalancedThms.Expr)"""
    plain = [p for p in PLAIN if all(v not in terms for v in lex_values(p)) and p not in (">", ")", "}", "]", ";")]
    out = []
    n = rng.randint(min_len, max(min_len, budget))
    while n > 0:
        r = rng.random()
        if r < 0.22 and n >= 2:
            o, c = rng.choice(soups.STRICT[:3] if rng.random() < 0.9 else soups.STRICT)
            inner = soups.gen_soup(rng, min(n - 2, 8), True, soups.STRICT, plain=[p for p in PLAIN if p not in (">", ")", "}", "]")])
            out += [o] + inner + [c]
            n -= 2 + len(inner)
        elif r < 0.34 and n >= 3:
            out.append(rng.choice(["A", "std::vector", "T"]))
            out.append("<")
            out += gen_angle(rng, min(n - 3, 5))
            out.append(">")
            n -= 3
        else:
            out.append(rng.choice(plain))
            n -= 1
    return out


def gen_angle(rng, budget):
    out = []
    n = rng.randint(0, budget)
    while n > 0:
        r = rng.random()
        if r < 0.2 and n >= 2:
            o, c = rng.choice(soups.STRICT[:3])
            out += [o] + soups.gen_soup(rng, 3, True) + [c]
            n -= 2
        elif r < 0.35 and n >= 3:
            out += ["B", "<"] + gen_angle(rng, n - 3) + [">"]
            n -= 3
        else:
            out.append(rng.choice(["x", "int", "3", ",", "::", "*", "+", "'c'", "\"s>\""]))
            n -= 1
    return out


def _v(val):
    return None if val is None else [t.value for t in val.tokens]


POSITIONS = [
    # name, template, terms, extractor, wrapper(expected tokens)
    ("var_init", "int x = @; int after;", [",", ";"], lambda d: _v(d.namespace.variables[0].value), None),
    ("var_init_multi", "int x = @, y = 2; int after;", [",", ";"], lambda d: _v(d.namespace.variables[0].value), None),
    ("var_init_second", "int y = 2, x = @; int after;", [",", ";"], lambda d: _v(d.namespace.variables[1].value), None),
    ("var_brace", "int x{@}; int after;", ["}"], lambda d: _v(d.namespace.variables[0].value), "brace"),
    ("param_default", "void f(int a = @); int after;", [",", ")"], lambda d: _v(d.namespace.functions[0].parameters[0].default), None),
    ("param_default_2", "void f(int a = @, int b = 1); int after;", [",", ")"], lambda d: _v(d.namespace.functions[0].parameters[0].default), None),
    ("method_param_default", "struct S { void m(int a = @); int f; }; int after;", [",", ")"], lambda d: _v(d.namespace.classes[0].methods[0].parameters[0].default), None),
    ("field_default", "struct S { int m = @; int f; }; int after;", [",", ";"], lambda d: _v(d.namespace.classes[0].fields[0].value), None),
    ("array_size", "int arr[@]; int after;", ["]"], lambda d: _v(d.namespace.variables[0].type.size), None),
    ("array_size_2d", "int arr[2][@]; int after;", ["]"], lambda d: _v(d.namespace.variables[0].type.array_of.size), None),
    ("enum_value", "enum E { A = @, B }; int after;", [",", "}"], lambda d: _v(d.namespace.enums[0].values[0].value), None),
    ("enum_value_last", "enum E { B, A = @ }; int after;", [",", "}"], lambda d: _v(d.namespace.enums[0].values[1].value), None),
    ("tparam_type_default", "template <typename T = @> struct S; int after;", [",", ">"], lambda d: _v(d.namespace.forward_decls[0].template.params[0].default), None),
    ("tparam_nontype_default", "template <int N = @, int M = 0> struct S; int after;", [",", ">"], lambda d: _v(d.namespace.forward_decls[0].template.params[0].default), None),
    ("fn_noexcept", "void f() noexcept(@); int after;", [")"], lambda d: _v(d.namespace.functions[0].noexcept), None),
    ("fn_throw", "void f() throw(@); int after;", [")"], lambda d: _v(d.namespace.functions[0].throw), None),
    ("method_noexcept", "struct S { void m() noexcept(@); int f; }; int after;", [")"], lambda d: _v(d.namespace.classes[0].methods[0].noexcept), None),
    ("method_throw", "struct S { void m() throw(@); int f; }; int after;", [")"], lambda d: _v(d.namespace.classes[0].methods[0].throw), None),
    ("decltype", "decltype(@) v; int after;", [")"], lambda d: [t.value for t in d.namespace.variables[0].type.typename.segments[0].tokens], None),
    ("concept", "template <typename T> concept C = @; int after;", [",", ";"], lambda d: _v(d.namespace.concepts[0].raw_constraint), None),
    ("pragma", "#pragma @\nint after;", [], lambda d: _v(d.pragmas[0].content), "pragma"),
    ("fnptr_param_default", "void (*fp)(int a = @); int after;", [",", ")"], lambda d: _v(d.namespace.variables[0].type.ptr_to.parameters[0].default), None),
    ("typedef_array", "typedef int A[@]; int after;", ["]"], lambda d: _v(d.namespace.typedefs[0].type.size), None),
    ("using_in_class_field", "struct S { static constexpr int k = @; }; int after;", [",", ";"], lambda d: _v(d.namespace.classes[0].fields[0].value), None),
]


def after_ok(d):
    vs = d.namespace.variables
    return bool(vs) and vs[-1].name.segments[-1].name == "after"


def in_expr(tokens, terms):
    """independent recogniser of BalancedThms.Expr over token *values*: returns True iff the
    token list is an Expr(terms) expression (strict groups strict-nested, depth-0 angle groups closed)"""
    strict_open = {"(": ")", "[": "]", "{": "}", "[[": "]]"}
    closers = set(strict_open.values()) | {">"}
    i, n = 0, len(tokens)

    def skip_sn(i):
        # after a strict opener: returns index after its closer or None
        stack = [strict_open[tokens[i]]]
        i += 1
        while i < n:
            t = tokens[i]
            if t in strict_open:
                stack.append(strict_open[t])
            elif t in closers and t != ">":
                if stack[-1] != t:
                    return None
                stack.pop()
                if not stack:
                    return i + 1
            i += 1
        return None

    def skip_an(i):
        # after '<': angle-nested content up to its '>'
        i += 1
        while i < n:
            t = tokens[i]
            if t == ">":
                return i + 1
            if t == "<":
                i = skip_an(i)
                if i is None:
                    return None
                continue
            if t in strict_open:
                i = skip_sn(i)
                if i is None:
                    return None
                continue
            if t in closers:
                return None
            i += 1
        return None

    while i < n:
        t = tokens[i]
        if t in terms:
            return False
        if t in strict_open:
            i = skip_sn(i)
            if i is None:
                return False
        elif t == "<":
            i = skip_an(i)
            if i is None:
                return False
        else:
            i += 1
    return True


def check_position(name, tmpl, e_text, e_tokens, wrap):
    src = tmpl.replace("@", " " + e_text + " ")
    try:
        d = impl.parse_string(src)
    except Exception as ex:
        return "position %s: expression makes parsing fail: %s" % (name, str(ex)[:160])
    pos = [p for p in POSITIONS if p[0] == name][0]
    try:
        got = pos[3](d)
    except Exception as ex:
        return "position %s: declaration shape changed (%s: %s)" % (name, type(ex).__name__, ex)
    exp = list(e_tokens)
    if wrap == "brace":
        exp = ["{"] + exp + ["}"]
    if got != exp:
        return "position %s: value tokens %r differ from the expression's tokens %r" % (name, got, exp)
    if not after_ok(d):
        return "position %s: the declaration after the value is lost" % name
    return None


def is_f6(case):
    toks = case.get("tokens") or []
    return "<" in toks and not in_expr(toks, case.get("terms") or [])


KNOWN_CLASSIFIERS = {"lt_outside_expr": is_f6}


def KNOWN_WITNESS_CHECK(entry):
    w = entry.get("witness")
    if entry["id"] == "F6":
        d = impl.parse_string(w)
        return len(d.namespace.variables) != 2
    if entry["id"] == "F8":
        try:
            impl.parse_string(w)
            return False
        except impl.CxxParseError:
            return True
    return False


def search(ctx, boost=False):
    s = Search()
    s.rule = ("every value-bearing position (%d templates) x expressions of the token-level grammar Expr(terms) "
              "(plain tokens, strict groups over strict-nested soups, template-ids), plus a small stream of "
              "depth-0 comparison expressions (known finding F6); non-trivial = >=2 tokens; distinct = distinct (position, text)" % len(POSITIONS))
    n = ctx.scale(2500, 60000) * (4 if boost else 1)
    rng = ctx.rng
    for i in range(n):
        name, tmpl, terms, _, wrap = POSITIONS[i % len(POSITIONS)]
        f6probe = rng.random() < 0.02 and wrap is None and name not in ("pragma",)
        if f6probe:
            toks = ["a", "<", "b"]
        else:
            toks = gen_expr(rng, rng.choice([1, 3, 8, 20]), terms)
        if wrap == "pragma":
            toks = [t for t in toks if "\n" not in t]
            text = " ".join(toks)
        else:
            text = soups.render(rng, toks)
        exp = []
        for t in toks:
            exp += lex_values(t)
        s.evaluations += 1
        if len(exp) >= 2:
            s.nontrivial.add((name, text))
        s.count(name)
        msg = check_position(name, tmpl, text, exp, wrap)
        if msg:
            s.violations.append(dict(what=msg, case=dict(kind="position", position=name, template=tmpl,
                                                         text=text, tokens=exp, terms=terms, wrap=wrap)))
        if len(s.samples) < 3 and len(exp) > 5:
            s.samples.append(dict(position=name, input=tmpl.replace("@", " " + text + " "), expected_tokens=exp))
    search_requires(ctx, s, boost)
    search_targs(ctx, s, boost)
    return s


# template arguments that stay unparsed (a trial parse as a type fails, the tokens become a Value): the tokens of the argument,
# all of them, none from its neighbours -- including the one special form `sizeof...(pack)` at the end of an argument
def _targ(t, i):
    a = t.typename.segments[-1].specialization.args[i].arg
    return [x.value for x in a.tokens] if isinstance(a, _types.Value) else None


TARG_POSITIONS = [
    ("targ_var_second", "Arr<int, @> v; int after;", lambda d: _targ(d.namespace.variables[0].type, 1)),
    ("targ_ref_only", "Buf<@>& r = q; int after;", lambda d: _targ(d.namespace.variables[0].type.ref_to, 0)),
    ("targ_return_middle", "Mat<R, @, 3> mk(); int after;", lambda d: _targ(d.namespace.functions[0].return_type, 1)),
    ("targ_param", "void f(Arr<@> a); int after;", lambda d: _targ(d.namespace.functions[0].parameters[0].type, 0)),
    ("targ_field", "struct S { Arr<@, 2> m; int f; }; int after;", lambda d: _targ(d.namespace.classes[0].fields[0].type, 0)),
    ("targ_base_alias", "using U = Outer<int>::Inner<@>; int after;", lambda d: _targ(d.namespace.using_alias[0].type, 0)),
]
TARG_ATOMS = [["N"], ["1"], ["0x10"], ["Base", "::", "size"], ["(", "N", ")"], ["f", "(", "1", ",", "2", ")"], ["sizeof", "(", "int", ")"],
              ["a", "[", "0", "]"], ["'c'"], ["::", "g"], ["T", "::", "value"], ["alignof", "(", "T", ")"], ["true"], ["K"],
              ["x", ".", "y"], ["(", "a", ",", "b", ")"], ["M", "{", "1", "}"], ["-", "1"], ["!", "B"]]
TARG_OPS = ["+", "-", "*", "/", "%", "<<", "|", "&", "^", "==", "!=", "&&", "||"]


def gen_targ_value(rng):
    toks = list(rng.choice(TARG_ATOMS))
    for _ in range(rng.choice([1, 1, 2, 3])):
        toks += [rng.choice(TARG_OPS)] + list(rng.choice(TARG_ATOMS))
    if rng.random() < 0.45:
        # the pack-size form, last in the argument
        toks = (toks + [rng.choice(TARG_OPS)] if rng.random() < 0.8 else []) + ["sizeof", "...", "(", rng.choice(["Ts", "Args"]), ")"]
    return toks


def check_targ_position(name, tmpl, toks):
    pos = [p for p in TARG_POSITIONS if p[0] == name][0]
    try:
        d = impl.parse_string(tmpl.replace("@", " ".join(toks)))
    except impl.CxxParseError as e:
        return "position %s: a template argument expression is rejected: %s" % (name, str(e)[:160]), False
    try:
        got = pos[2](d)
    except Exception as ex:
        return "position %s: declaration shape changed (%s: %s)" % (name, type(ex).__name__, ex), False
    if got is None:
        return None, False              # read as a type: not an unparsed value
    exp = []
    for t in toks:
        exp += lex_values(t)
    if got != exp:
        return "position %s: value tokens %r differ from the argument's tokens %r" % (name, got, exp), True
    if not after_ok(d):
        return "position %s: the declaration after the value is lost" % name, True
    return None, True


def search_targs(ctx, s, boost=False):
    rng = ctx.rng
    for i in range(ctx.scale(500, 10000) * (3 if boost else 1)):
        name, tmpl, _ = TARG_POSITIONS[i % len(TARG_POSITIONS)]
        toks = gen_targ_value(rng)
        s.evaluations += 1
        s.count(name)
        msg, value = check_targ_position(name, tmpl, toks)
        if value:
            s.nontrivial.add((name, " ".join(toks)))
        if msg:
            s.violations.append(dict(what=msg, case=dict(kind="targ-position", position=name, template=tmpl, tokens=toks)))


# requires-clauses in every position that takes one, in front of every ending
REQ_POSITIONS = [
    ("requires_header", "template <typename T> requires @ void f(T); int after;", lambda d: _v(d.namespace.functions[0].template.raw_requires_pre)),
    ("requires_header_class", "template <typename T> requires @ struct S {}; int after;", lambda d: _v(d.namespace.classes[0].class_decl.template.raw_requires_pre)),
    ("requires_fn_decl", "template <typename T> void f(T) requires @; int after;", lambda d: _v(d.namespace.functions[0].raw_requires)),
    ("requires_fn_body", "template <typename T> void f(T) requires @ { return; } int after;", lambda d: _v(d.namespace.functions[0].raw_requires)),
    ("requires_fn_delete", "template <typename T> void f(T) requires @ = delete; int after;", lambda d: _v(d.namespace.functions[0].raw_requires)),
    ("requires_method_decl", "template <typename T> struct S { void m() const requires @; int f; }; int after;", lambda d: _v(d.namespace.classes[0].methods[0].raw_requires)),
    ("requires_method_default", "template <typename T> struct S { S() requires @ = default; int f; }; int after;", lambda d: _v(d.namespace.classes[0].methods[0].raw_requires)),
    ("requires_method_pure", "template <typename T> struct S { virtual void m() requires @ = 0; int f; }; int after;", lambda d: _v(d.namespace.classes[0].methods[0].raw_requires)),
    ("requires_method_body", "template <typename T> struct S { void m() requires @ {} int f; }; int after;", lambda d: _v(d.namespace.classes[0].methods[0].raw_requires)),
]


def gen_requires_clause(rng):
    """an unqualified clause (F29, the '::' inside names, has its own witness): primaries joined by && / || / comparison"""
    def primary():
        if rng.random() < 0.35:
            return list(rng.choice(REQ_PARENS)), True
        pc = list(rng.choice(REQ_PIECES))
        return pc, pc[-1] == '>'
    if rng.random() < 0.1:
        return ['requires', '(', 'T', 't', ')', '{', 't', '.', 'x', ';', '}']
    w, closed = primary()
    for _ in range(rng.choice([0, 0, 1, 1, 2, 3])):
        op = list(rng.choice(REQ_OPS[:8]))
        while not closed and op[0] == '<':
            op = list(rng.choice(REQ_OPS[:8]))
        w2, closed = primary()
        w += op + w2
    return w


def check_requires_position(name, tmpl, toks):
    pos = [p for p in REQ_POSITIONS if p[0] == name][0]
    text = tmpl.replace("@", " ".join(toks))
    try:
        d = impl.parse_string(text)
    except impl.CxxParseError as e:
        return "position %s: a legal requires-clause is rejected: %s" % (name, str(e)[:160])
    try:
        got = pos[2](d)
    except Exception as ex:
        return "position %s: declaration shape changed (%s: %s)" % (name, type(ex).__name__, ex)
    if got != list(toks):
        return "position %s: value tokens %r differ from the clause's tokens %r" % (name, got, list(toks))
    if not after_ok(d):
        return "position %s: the declaration after the clause is lost" % name
    return None


def search_requires(ctx, s, boost=False):
    rng = ctx.rng
    n = ctx.scale(600, 12000) * (4 if boost else 1)
    s.rule += ("; requires-clauses (primaries: parenthesized expressions, specialized names, decltype; joined by && || == != <= >=; "
               "requires-expressions) in %d positions (template header, function and method tails in front of ';', a body, `= delete`, "
               "`= default`, `= 0`): the reported tokens are the clause's tokens and the following declaration is intact" % len(REQ_POSITIONS))
    for i in range(n):
        name, tmpl, _ = REQ_POSITIONS[i % len(REQ_POSITIONS)]
        toks = gen_requires_clause(rng)
        if name.startswith("requires_header") and toks[-1] not in (')', '>', '}'):
            toks = toks + ['&&', '(', 'true', ')']     # a bare name in front of the declaration's type would read on into it
        s.evaluations += 1
        s.nontrivial.add((name, " ".join(toks)))
        s.count(name)
        msg = check_requires_position(name, tmpl, toks)
        if msg:
            s.violations.append(dict(what=msg, case=dict(kind="requires-position", position=name, template=tmpl, tokens=toks)))


def replay(ctx, case):
    if case.get("kind") == "requires-position":
        m = check_requires_position(case["position"], case["template"], case["tokens"])
        return [m] if m else []
    if case.get("kind") == "targ-position":
        m = check_targ_position(case["position"], case["template"], case["tokens"])[0]
        return [m] if m else []
    if case.get("kind") == "position":
        m = check_position(case["position"], case["template"], case["text"], case["tokens"], case.get("wrap"))
        return [m] if m else []
    return []


LEVEL_TEXT = ("Proved in Coq for all token lists: _consume_value_until returns a split of its input (value_is_contiguous: nothing "
              "dropped, duplicated, reordered or taken from outside), stops only before a terminator or at end of input "
              "(value_stops_at_terminator), and for every expression of the token-level grammar Expr (plain tokens, strict groups "
              "over strict-nested soups, angle groups closed by '>') returns exactly the expression (value_is_whole); a balanced "
              "group used as value is exactly the group (group_value_exact). The slice policy (throw/noexcept/decltype/array size "
              "drop exactly the outer delimiters, nothing else slices) is a finite check over the value-position table "
              "regenerated from parser.py's AST (positions_policy). Differential run ties the hand model to the code; "
              "24 value-bearing positions x generated expressions are searched through parse_string. Requires-clauses (the bespoke loop of "
              "_parse_requires) are modelled separately (Parse/Requires.v) and proved exact for clauses of any length of parenthesized / "
              "specialized-name / decltype primaries joined by one- or two-token operators, ended by a non-operator or a lone '=' "
              "(requires_clause_exact_for_unqualified_names; requires_clause_value_partial states the missing '::' of qualified names, F29), "
              "tied by calling the real _parse_requires and searched in 9 positions x endings. The full statement is false for "
              "a depth-0 '<' used as comparison (lt_operator_refuted, known finding F6).")
LEVEL_NOTE = ("Trusted: Coq kernel, translator (tables + AST scan of value positions), extraction, driver, harness. Bespoke collectors "
              "(requires-clauses, pragma loop, sizeof...) are only searched. F6 ('a < b' at depth 0) and F8 (']]') are known findings.")
TECHNIQUE = "Coq proof (induction over expression derivations; frame lemma) + finite check of regenerated slice table + differential run + position search"

"""C08 -- The lexer partitions the text: nothing lost, lines counted, literals whole."""
import re

from harness.core import Corr, Search
from harness import impl, lexgen, lexcorr, litgrammar

PID = "C08"
TITLE = "The lexer partitions the text: nothing lost, lines counted, literals whole"
THEOREM_FILE = "Props/C08.v"
MODELLED = ("regex engine (Base/Regex.v) and token loop (Lex/PlyLoop.v) are hand-written mirrors of CPython's re semantics on "
            "the opcode subset in use and of _ply/lex.py: validated by differential runs against the real PlyLexer; rule order, "
            "regex trees, actions, literals, ignore set are regenerated; the literal/punctuator clauses are decided by the "
            "implementation-side enumeration of an independent literal grammar (no unbounded theorem yet)")
ASSUMPTIONS = ["CPython's re implements the documented backtracking semantics on the opcode subset listed in DESIGN.md 3.3"]


def gen_case(rng):
    r = rng.random()
    if r < 0.55:
        return lexgen.gen_text(rng, rng.choice([1, 3, 10, 30, 80]))
    if r < 0.75:
        return lexgen.mutate(rng, lexgen.gen_text(rng, rng.choice([3, 10])))
    if r < 0.85:
        return lexgen.gen_unicode(rng, rng.randint(1, 30))
    if r < 0.93:
        t, _ = litgrammar.rand_literal(rng)
        return t + rng.choice(["", " ", ";", "_x", "e", ".", "'", "\"", "\n"]) + rng.choice(["", "x", "1"])
    return lexgen.mutate(rng, rng.choice(impl.corpus()))


def correspond(ctx, n=None):
    corr = Corr()
    n = n or ctx.scale(6000, 150000)
    cases = [("f.h", gen_case(ctx.rng)) for _ in range(n)]
    outs = lexcorr.model_lex(cases)
    for (f, t), mo in zip(cases, outs):
        io = lexcorr.impl_lex(f, t)
        corr.cases += 1
        k = "ok" if io and io[-1] == 8 else "lexerror"
        corr.dist[k] = corr.dist.get(k, 0) + 1
        if io != mo:
            corr.disagreements.append(dict(case=dict(text=t), model=mo[-14:], impl=io[-14:]))
    corr.samples = [dict(text=cases[i][1][:200]) for i in range(min(3, len(cases)))]
    corr.note = "raw PLY token stream (type, lexpos, length, lineno, stamped location, error kind/location) of the real PlyLexer vs the extracted Coq lexer on generated token texts, literals, mutations, random unicode, mutated corpus"
    return corr


DIRECTIVE_GAP = re.compile(r"(\r|#[^\n]*)*\Z")


def raw_tokens(text):
    L = impl.L
    lx = L.PlyLexer("f.h")
    lx.input(text)
    out = []
    while True:
        t = lx.token()
        if t is None:
            return out
        out.append(t)


def check_partition(text):
    """property oracle on the implementation: partition + line numbers"""
    try:
        toks = raw_tokens(text)
    except impl.L.LexError:
        return None, 0
    pos = 0
    for t in toks:
        gap = text[pos:t.lexpos]
        if not DIRECTIVE_GAP.match(gap):
            return "text %r between tokens is lost (neither carriage returns nor a #line/#warning directive)" % gap[:40], len(toks)
        if "#" in gap and not re.match(r"(\r|#[\t ]*(line)? \d+ \".*\"[^\n]*|#warning[^\n]*)*\Z", gap):
            return "directive %r was dropped silently" % gap[:40], len(toks)
        if text[t.lexpos:t.lexpos + len(t.value)] != t.value:
            return "token text %r is not the input text at its position" % t.value[:40], len(toks)
        if t.type == "COMMENT_MULTILINE" and t.value.find("*/", 2) != len(t.value.rstrip("\n")) - 2:
            return "block comment token %r does not end at the first '*/'" % t.value[:60], len(toks)
        if t.lineno != 1 + text[:t.lexpos].count("\n"):
            return "token %r at offset %d has lineno %d, expected %d" % (t.value[:20], t.lexpos, t.lineno, 1 + text[:t.lexpos].count("\n")), len(toks)
        pos = t.lexpos + len(t.value)
    if not DIRECTIVE_GAP.match(text[pos:]):
        return "text %r after the last token is lost" % text[pos:][:40], len(toks)
    return None, len(toks)


def logical_tokens(text):
    ls = impl.L.LexerTokenStream("f.h", text)
    out = []
    while True:
        if not ls.tokbuf and not ls._fill_tokbuf(ls.tokbuf):
            return out
        while ls.tokbuf:
            out.append(ls.tokbuf.popleft())


TAILS = ["", " ", ";", ")", "\n", "+", ",", " x"]


HEADS = [("", 0), ("\"h\"", 1), ("'c'", 1), ("(", 1), ("x +", 3), ("L\"w\"", 1), ("1.5f ", 2), ("\"u\"_s ", 2), ("]", 1)]


def check_literal(lit, cls, udl, tail, head=("", 0)):
    """the literal, directly after [head] (a text lexing to head[1] tokens/blanks) and before [tail]"""
    text = head[0] + lit + udl + tail
    try:
        toks = logical_tokens(text)
    except impl.L.LexError as e:
        return "well-formed literal %r (%s) is rejected in %r: %s" % (lit + udl, cls, text, e)
    want = ("UD_" + cls) if udl else cls
    k = head[1]
    if len(toks) <= k or toks[k].value != lit + udl or toks[k].type != want:
        got = [(t.type, t.value) for t in toks[:k + 3]]
        return "literal %r in %r should be one %s token, got %r" % (lit + udl, text, want, got)
    return None


def check_keyword(kw, tail):
    toks = logical_tokens(kw + tail)
    if not toks:
        return "keyword %r produced no token" % kw
    identc = tail[:1].isalnum() or tail[:1] == "_"
    if identc:
        if toks[0].type != "NAME" or not toks[0].value.startswith(kw):
            return "%r should be one plain NAME" % (kw + tail)
    else:
        if toks[0].type != kw or toks[0].value != kw:
            return "keyword %r lexed as %s %r" % (kw, toks[0].type, toks[0].value)
    return None


PUNCT = {"...": "ELLIPSIS", "[[": "DBL_LBRACKET", "]]": "DBL_RBRACKET", "::": "DBL_COLON", "&&": "DBL_AMP",
         "||": "DBL_PIPE", "->": "ARROW", "<<": "SHIFT_LEFT"}
PTAILS = ["", " ", "x", "1", ".", ":", "&", "|", ">", "<", "[", "]", "-", "=", "*", "/", "\n", "\"a\"", "'"]


def check_punct(p, ty, tail):
    try:
        toks = logical_tokens(p + tail)
    except impl.L.LexError:
        return None
    if not toks or toks[0].type != ty or toks[0].value != p:
        return "punctuator %r before %r is not matched by maximal munch: %r" % (p, tail, [(t.type, t.value) for t in toks[:2]])
    return None


def check_logical(text):
    """logical stream loses only carriage returns, #line/#warning directives and spliced backslash-newlines"""
    try:
        toks = logical_tokens(text)
    except impl.L.LexError:
        return None
    got = "".join(t.value for t in toks)
    want = re.sub(r"#[\t ]*(line)? \d+ \"[^\n]*\"[^\n]*|#warning[^\n]*", "", text.replace("\r", ""))
    # spliced pairs: a backslash token directly followed by a NEWLINE token
    if got == want:
        return None
    # remove splices the specification allows: backslash immediately before newline(s) outside tokens
    raw = raw_tokens(text)
    pieces = []
    for t in raw:
        # a NEWLINE directly after a pending backslash token is a splice; after the splice an earlier stray
        # backslash is again directly before the next NEWLINE (the stream works on its buffer, so splices cascade)
        if t.type == "NEWLINE" and pieces and pieces[-1] == ("\\", "\\"):
            pieces.pop()
            continue
        pieces.append((t.type, t.value))
    if "".join(v for _, v in pieces) == got:
        return None
    return "logical token texts do not reproduce the input minus the documented omissions"


def search(ctx, boost=False):
    s = Search()
    s.rule = ("(1) partition+lineno oracle on generated token texts with arbitrary separators, mutations, unicode; (2) every literal of "
              "an independent literal grammar enumerated exhaustively up to 4 digits / 1-2 chars (%d literals) in the thorough tier, "
              "a seeded sample in the quick tier, each with/without UDL suffix and before several tails, plus random longer literals; "
              "(3) every keyword x tails; (4) every multi-character punctuator x tails; non-trivial = text with >=2 tokens or a literal; "
              "distinct = distinct text" % 18006)
    rng = ctx.rng
    n = ctx.scale(4000, 100000) * (3 if boost else 1)
    for _ in range(n):
        t = gen_case(rng)
        s.evaluations += 1
        msg, ntok = check_partition(t)
        if ntok >= 2:
            s.nontrivial.add(t)
        s.count("partition")
        if msg:
            s.violations.append(dict(what=msg, case=dict(kind="partition", text=t)))
        msg = check_logical(t)
        if msg:
            s.violations.append(dict(what=msg, case=dict(kind="logical", text=t)))
    lits = list(litgrammar.all_literals(4))
    if not ctx.thorough and not boost:
        lits = rng.sample(lits, 2500)
    else:
        s.exhaustive = True
    for lit, cls in lits:
        for udl in ("", "_km") if not ctx.thorough else litgrammar.UDL:
            for tail in (rng.sample(TAILS, 2) if not ctx.thorough else TAILS):
                s.evaluations += 1
                s.count("literal:" + cls)
                s.nontrivial.add(lit + udl + tail)
                head = rng.choice(HEADS)
                msg = check_literal(lit, cls, udl, tail, head)
                if msg:
                    s.violations.append(dict(what=msg, case=dict(kind="literal", lit=lit, cls=cls, udl=udl, tail=tail, head=list(head))))
    for _ in range(ctx.scale(1500, 40000)):
        lit, cls = litgrammar.rand_literal(rng)
        udl = rng.choice(litgrammar.UDL)
        tail = rng.choice(TAILS)
        s.evaluations += 1
        s.count("literal-random")
        s.nontrivial.add(lit + udl + tail)
        head = rng.choice(HEADS)
        msg = check_literal(lit, cls, udl, tail, head)
        if msg:
            s.violations.append(dict(what=msg, case=dict(kind="literal", lit=lit, cls=cls, udl=udl, tail=tail, head=list(head))))
    for kw in lexgen.KEYWORDS:
        for tail in ["", " ", ";", "(", "x", "_", "9", "::", "\n", "<"]:
            s.evaluations += 1
            s.count("keyword")
            msg = check_keyword(kw, tail)
            if msg:
                s.violations.append(dict(what=msg, case=dict(kind="keyword", kw=kw, tail=tail)))
    for p, ty in PUNCT.items():
        for tail in PTAILS:
            s.evaluations += 1
            s.count("punct")
            msg = check_punct(p, ty, tail)
            if msg:
                s.violations.append(dict(what=msg, case=dict(kind="punct", p=p, ty=ty, tail=tail)))
    s.samples = [dict(text=t[:160]) for t in list(s.nontrivial)[:3]]
    return s


def replay(ctx, case):
    k = case.get("kind")
    if k == "partition":
        m, _ = check_partition(case["text"])
    elif k == "logical":
        m = check_logical(case["text"])
    elif k == "literal":
        m = check_literal(case["lit"], case["cls"], case["udl"], case["tail"], tuple(case.get("head", ["", 0])))
    elif k == "keyword":
        m = check_keyword(case["kw"], case["tail"])
    elif k == "punct":
        m = check_punct(case["p"], case["ty"], case["tail"])
    else:
        m = None
    return [m] if m else []


LEVEL_TEXT = ("Proved in Coq for every input string (no length bound), over the rule set regenerated from the live lexer: the pieces "
              "(tokens, ignored carriage returns, dropped #line/#warning directives) in order reproduce the input, also up to the "
              "offending text on error (lex_partition, lex_partition_err); each token's lineno is 1 + the newlines before it "
              "(lex_lineno, via the certified check that only the comment/NEWLINE rules can match a newline and they count it); "
              "a NAME token never carries a keyword (keywords_never_names); what is dropped is a directive match. The regex engine "
              "and loop are hand models tied to the code by a differential run against the real PlyLexer (type, position, length, "
              "lineno, stamped location, error kind) on generated texts. The literal / maximal-munch clauses are decided on the "
              "implementation by exhaustive enumeration of an independent literal grammar up to a bound plus random literals, all "
              "keywords and punctuators before many tails (no unbounded theorem for them yet).")
LEVEL_NOTE = ("Trusted: Coq kernel, translator (re._parser tree -> rx, t_* AST -> action), extraction, driver, harness; CPython re "
              "semantics are modelled, not verified. Literal-class and maximal-munch clauses: bounded enumeration + random, not proof.")
TECHNIQUE = "Coq proof over regenerated lexer rules (regex soundness + certified newline-discipline check) + lexer differential + literal-grammar enumeration"

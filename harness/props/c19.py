"""C19 -- Preprocessor integration yields the main file's declarations only."""
import io
import os
import shutil
import tempfile

from harness.core import Corr, Search, run_driver
from harness import impl, blocks

from cxxheaderparser import preprocessor as PP
from cxxheaderparser.options import ParserOptions
from cxxheaderparser.simple import parse_file

PID = "C19"
TITLE = "Preprocessor integration yields the main file's declarations only"
THEOREM_FILE = "Props/C19.v"
MODELLED = ("the three filters are mirrored by hand in PP/Filters.v (bodies pinned by text) and proved against the marker-stream spec; that "
            "real g++/pcpp output is an instance of the spec's rendering, macro expansion, depfile writing and the call sites "
            "(retain_all_content, stdin name) are covered by the include-graph search with the real backends; msvc has no backend here: "
            "synthetic streams only")
ASSUMPTIONS = ["file names contain no double quote or newline", "content lines do not begin with the marker prefix"]

NAMES = ["a.h", "ba.h", "a.h.h", "xa.h", "main.h", "inc.h", "my file.h", "sub/a.h", "sub/ba.h", "sub dir/c.h", "a.hpp", "aa.h", "b/a.h",
         "x.h", "deep/er/a.h"]


def enc_filter(kind, fname, lines):
    l = [50, kind, len(fname)] + [ord(c) for c in fname] + [len(lines)]
    for x in lines:
        l += [len(x)] + [ord(c) for c in x]
    return l


def dec_lines(nums):
    n = nums[0]
    out = []
    i = 1
    for _ in range(n):
        k = nums[i]
        out.append("".join(chr(c) for c in nums[i + 1:i + 1 + k]))
        i += 1 + k
    return out


def impl_filter(kind, fname, lines):
    text = "".join(lines)
    if kind == 1:
        return PP._gcc_filter(fname, io.StringIO(text))
    if kind == 2:
        return PP._pcpp_filter(fname, io.StringIO(text), None)
    return PP._msvc_filter(io.StringIO(text))


def synth_lines(rng, kind, main):
    names = rng.sample(NAMES, 4) + [main, main, "x" + main, main + "x", main[1:] or "z", "dir/" + main, "a\\b.h", "q\"uote.h"]
    lines = []
    if kind == 3:
        lines.append('#line 1 "%s"\n' % main)
    for _ in range(rng.randint(1, 14)):
        r = rng.random()
        f = rng.choice(names)
        if r < 0.35:
            if kind == 1:
                lines.append(rng.choice(['# %d "%s"\n', '# %d "%s" 1\n', '# %d "%s" 2 3 4\n']) % (rng.randint(1, 99), f.replace("\\", "\\\\")))
            else:
                lines.append('#line %d "%s"\n' % (rng.randint(1, 99), f))
        elif r < 0.45:
            lines.append(rng.choice(["# 1\n", "#line\n", "# \"\n", "#line 5\n", "#pragma once\n", "#  3 \"%s\"\n" % f, "#line 3 \"%s\" \n" % f,
                                     "# 7 \"%s\n" % f, "#line 7 %s\"\n" % f]))
        else:
            lines.append(rng.choice(["int v%d;\n", "  // c %d\n", "\n", "const char* s%d = \"q\";\n", "struct S%d {};\n"]) .replace("%d", str(rng.randint(0, 99))))
    if rng.random() < 0.3 and lines:
        lines[-1] = lines[-1].rstrip("\n")
    return lines


def correspond(ctx):
    corr = Corr()
    rng = ctx.rng
    cases = []
    for _ in range(ctx.scale(2500, 50000)):
        kind = rng.choice([1, 2, 3])
        main = rng.choice(NAMES + ["<stdin>", "c:\\x\\a.h"])
        cases.append((kind, main, synth_lines(rng, kind, main)))
    outs = run_driver([enc_filter(*c) for c in cases])
    for (kind, main, lines), mo in zip(cases, outs):
        io_ = impl_filter(kind, main, lines)
        corr.cases += 1
        k = {1: "gcc", 2: "pcpp", 3: "msvc"}[kind]
        corr.dist[k] = corr.dist.get(k, 0) + 1
        if "".join(dec_lines(mo)) != io_:
            corr.disagreements.append(dict(case=dict(kind=kind, main=main, lines=lines), model="".join(dec_lines(mo)), impl=io_))
    # real preprocessor outputs through model and implementation filters
    real = real_outputs(ctx, ctx.scale(6, 60))
    for kind, main, text in real:
        lines = text.splitlines(True)
        mo = run_driver([enc_filter(kind, main, lines)])[0]
        io_ = impl_filter(kind, main, lines)
        corr.cases += 1
        corr.dist["real-" + {1: "gcc", 2: "pcpp"}[kind]] = corr.dist.get("real-" + {1: "gcc", 2: "pcpp"}[kind], 0) + 1
        if "".join(dec_lines(mo)) != io_:
            corr.disagreements.append(dict(case=dict(kind=kind, main=main, text=text[:500]), model="".join(dec_lines(mo))[:300], impl=io_[:300]))
    corr.samples = [dict(kind=cases[0][0], main=cases[0][1], lines=cases[0][2])]
    corr.note = "synthetic marker streams (well-formed and malformed) and real g++ -E / pcpp outputs of generated include graphs through the real filter functions and PP/Filters.v (extracted)"
    return corr


# ---------------------------------------------------------------------------
# include graphs on disk
# ---------------------------------------------------------------------------

class Graph:
    def __init__(self, rng, root):
        self.rng = rng
        self.root = root
        self.files = {}       # relative name -> text
        self.main = None
        self.main_vars = []   # (name, value tokens, line)
        self.inc_vars = []    # names of variables declared in included files, in preprocessing order
        self.read = []        # files read (relative), in order

    def build(self):
        rng = self.rng
        pool = rng.sample(NAMES, rng.randint(2, 6))
        self.main = pool[0]
        others = pool[1:]
        # make suffix/prefix collisions likely
        if rng.random() < 0.6:
            others.append(rng.choice(["b" + self.main.split("/")[-1], "sub/" + self.main.split("/")[-1], self.main + ".h"]))
        others = [o for o in dict.fromkeys(others) if o != self.main]
        macros = {}
        order = []

        def make(name, depth, avail):
            k = len(self.files)
            # (gcc's #pragma once treats two files with the same content and time stamp as one file: keep every file unique)
            lines = ["#pragma once", "// file %d" % k]
            self.files[name] = None
            kids = [o for o in avail if o not in self.files]
            rng.shuffle(kids)
            for o in kids[:rng.randint(0, 2)] if depth < 4 else []:
                lines.append('#include "%s"' % o)
                if o not in self.files:      # a file included twice is built once (#pragma once keeps it single)
                    make(o, depth + 1, avail)
            m = "M%d" % k
            macros[m] = str(rng.randint(1, 99))
            if rng.random() < 0.7:
                lines.append("#define %s %s" % (m, macros[m]))
            else:
                macros.pop(m)
            if rng.random() < 0.8:       # macro-only includes exist too
                v = "inc_%d" % k
                lines.append("int %s;" % v)
                order.append(v)
            self.files[name] = "\n".join(lines) + "\n"
            self.read.append(name)

        # main file
        mlines = []
        self.files[self.main] = None
        for i in range(rng.randint(1, 5)):
            r = rng.random()
            avail = [o for o in others if o not in self.files]
            if r < 0.5 and avail:
                o = rng.choice(avail)
                mlines.append('#include "%s"' % o)
                make(o, 1, others)
            else:
                if macros and rng.random() < 0.6:
                    m = rng.choice(sorted(macros))
                    mlines.append("int mv%d = %s;" % (i, m))
                    self.main_vars.append(("mv%d" % i, [macros[m]], len(mlines)))
                else:
                    mlines.append("int mv%d = %d;" % (i, i))
                    self.main_vars.append(("mv%d" % i, [str(i)], len(mlines)))
        if not self.main_vars:
            mlines.append("int mv_last = 7;")
            self.main_vars.append(("mv_last", ["7"], len(mlines)))
        self.files[self.main] = "\n".join(mlines) + "\n"
        # quote includes are looked up in the includer's directory first: a graph in which that finds a different
        # file than the root-relative one the plan means is ambiguous by construction; the caller regenerates
        self.ambiguous = False
        # (pcpp, like MSVC, also searches the directories of every file on the include stack, so every directory of
        # the graph counts, not only the includer's)
        dirs = {os.path.dirname(n) for n in self.files if os.path.dirname(n)}
        for includer, text in self.files.items():
            for line in text.split("\n"):
                if line.startswith('#include "'):
                    inc = line[len('#include "'):-1]
                    for d in dirs:
                        if os.path.normpath(os.path.join(d, inc)) in self.files and os.path.normpath(os.path.join(d, inc)) != inc:
                            self.ambiguous = True
        self.inc_vars = order
        for name, text in self.files.items():
            p = os.path.join(self.root, name)
            os.makedirs(os.path.dirname(p), exist_ok=True)
            with open(p, "w") as fp:
                fp.write(text)


def have_gpp():
    return shutil.which("g++") is not None


def backends():
    out = []
    if PP.pcpp is not None:
        out.append("pcpp")
    if have_gpp():
        out.append("gcc")
    return out


SPELLINGS = ("abs", "rel-dot", "rel-absinc", "rel-parent")


def make_pp(backend, root, retain, depfile=None, inc=None):
    kw = dict(include_paths=[root] if inc is None else inc, retain_all_content=retain)
    if depfile:
        kw["depfile"] = depfile
        kw["deptarget"] = ["tgt.o"]
    if backend == "gcc":
        return PP.make_gcc_preprocessor(print_cmd=False, **kw)
    return PP.make_pcpp_preprocessor(**kw)


class LocVisitor(impl.SimpleCxxVisitor):
    def __init__(self):
        self.locs = {}

    def on_variable(self, state, v):
        self.locs[v.name.segments[-1].name] = (state.location.filename, state.location.lineno)
        super().on_variable(state, v)


def check_graph(g, backend, retain, use_dep, as_string=False, spelling="abs"):
    """spelling: how the main file and the include path are named -- absolute (abs), relative to the graph's root as the
    current directory with include path '.' (rel-dot) or the absolute root (rel-absinc), or relative to the root's parent
    directory (rel-parent).  The property holds whatever the files and directories are called."""
    if spelling == "abs":
        return _check_graph(g, backend, retain, use_dep, as_string, os.path.join(g.root, g.main), None)
    old = os.getcwd()
    try:
        if spelling == "rel-parent":
            os.chdir(os.path.dirname(g.root))
            b = os.path.basename(g.root)
            return _check_graph(g, backend, retain, use_dep, as_string, os.path.join(b, g.main), [b])
        os.chdir(g.root)
        return _check_graph(g, backend, retain, use_dep, as_string, g.main, ["."] if spelling == "rel-dot" else [g.root])
    finally:
        os.chdir(old)


def _check_graph(g, backend, retain, use_dep, as_string, path, inc):
    root = g.root
    dep = os.path.join(root, "out.d") if use_dep else None
    if backend == "pcpp" and retain and use_dep:
        dep = None
    pp = make_pp(backend, root, retain, dep, inc)
    v = LocVisitor()
    try:
        if as_string:
            with open(path) as fp:
                content = fp.read()
            p = impl.P.CxxParser("<str>", content, v, ParserOptions(preprocessor=pp))
        else:
            p = impl.P.CxxParser(path, None, v, ParserOptions(preprocessor=pp))
        p.parse()
    except Exception as e:
        return "parse with %s backend failed: %s: %s" % (backend, type(e).__name__, str(e)[:200])
    got = [(x.name.segments[-1].name, [t.value for t in x.value.tokens] if x.value else None) for x in v.data.namespace.variables]
    main_exp = [(n, val) for n, val, _ in g.main_vars]
    if not retain:
        if got != main_exp:
            return "%s, retain_all_content=False: variables %r, the main file declares %r" % (backend, got, main_exp)
        for n, _, line in g.main_vars:
            fn, ln = v.locs[n]
            if ln != line:
                return "%s: %s is on line %d of the main file, reported %s:%d" % (backend, n, line, fn, ln)
    else:
        names = [n for n, _ in got]
        for n in g.inc_vars:
            if n not in names:
                return "%s, retain_all_content=True: included declaration %s is missing" % (backend, n)
        if [x for x in got if x[0].startswith("mv")] != main_exp:
            return "%s, retain_all_content=True: main declarations differ" % backend
    if dep:
        try:
            with open(dep) as fp:
                d = fp.read()
        except OSError:
            return "%s: depfile was not written" % backend
        if "tgt.o" not in d:
            return "%s: depfile does not name the target" % backend
        flat = d.replace("\\\n", " ").replace("\\ ", "\x00")
        deps = [x.replace("\x00", " ") for x in flat.split(":", 1)[1].split()]
        for name in g.read + [g.main]:
            if not any(os.path.normpath(x).endswith(os.path.normpath(name)) for x in deps):
                return "%s: depfile does not name %s (has %r)" % (backend, name, deps)
    return None


def real_outputs(ctx, n):
    out = []
    for _ in range(n):
        root = tempfile.mkdtemp(prefix="verif_c19_")
        try:
            g = Graph(ctx.rng, root)
            g.build()
            if g.ambiguous:
                continue
            path = os.path.join(root, g.main)
            if have_gpp():
                import subprocess
                try:
                    text = subprocess.check_output(["g++", "-w", "-E", "-C", "-I" + root, path], encoding="utf-8", stderr=subprocess.DEVNULL)
                    out.append((1, path, text))
                except Exception:
                    pass
            if PP.pcpp is not None:
                pp = PP._CustomPreprocessor(None, None)
                pp.add_path(root)
                pp.line_directive = "#line"
                with open(path) as fp:
                    pp.parse(fp.read(), path)
                buf = io.StringIO()
                pp.write(buf)
                out.append((2, path, buf.getvalue()))
        finally:
            shutil.rmtree(root, ignore_errors=True)
    return out


def search(ctx, boost=False):
    s = Search()
    bk = backends()
    s.rule = ("generated include graphs on disk (file names that are suffixes/prefixes of one another, sub-directories, blanks, depth <= 4, "
              "macro-only includes, #pragma once) x available backends %s x retain_all_content x depfile x (file | string input) x path spelling "
              "(absolute | relative to the root with include path '.' or the absolute root | relative to the parent directory): declarations "
              "must be exactly the main file's (macro-expanded, in order, main-file line numbers) / include the included ones; depfile names "
              "target and every file read; non-trivial = graph with >=1 include; distinct = distinct (graph, configuration)" % bk)
    rng = ctx.rng
    n = ctx.scale(40, 800) * (3 if boost else 1)
    for i in range(n):
        root = tempfile.mkdtemp(prefix="verif_c19_")
        try:
            g = Graph(rng, root)
            g.build()
            if g.ambiguous:
                continue
            for backend in bk:
                for retain in (False, True):
                    for use_dep in (False, True):
                        as_string = (backend == "gcc" and not use_dep and rng.random() < 0.3)
                        spelling = "abs" if (as_string or rng.random() < 0.4) else rng.choice(SPELLINGS[1:])
                        s.evaluations += 1
                        if len(g.files) > 1:
                            s.nontrivial.add((i, backend, retain, use_dep))
                        s.count("%s/retain=%s/dep=%s" % (backend, retain, use_dep))
                        s.count("spelling=" + spelling)
                        msg = check_graph(g, backend, retain, use_dep, as_string, spelling)
                        if msg:
                            s.violations.append(dict(what=msg + " [paths: %s]" % spelling,
                                                     case=dict(kind="graph", files=g.files, main=g.main, backend=backend,
                                                               retain=retain, dep=use_dep, main_vars=g.main_vars,
                                                               inc_vars=g.inc_vars, read=g.read, as_string=as_string, spelling=spelling)))
            if len(s.samples) < 2 and len(g.files) > 2:
                s.samples.append(dict(main=g.main, files=g.files))
        finally:
            shutil.rmtree(root, ignore_errors=True)
    return s


def replay(ctx, case):
    if case.get("kind") != "graph":
        return []
    root = tempfile.mkdtemp(prefix="verif_c19_")
    try:
        g = Graph(ctx.rng, root)
        g.files = case["files"]
        g.main = case["main"]
        g.main_vars = [tuple(x) for x in case["main_vars"]]
        g.inc_vars = case["inc_vars"]
        g.read = case["read"]
        for name, text in g.files.items():
            p = os.path.join(root, name)
            os.makedirs(os.path.dirname(p), exist_ok=True)
            with open(p, "w") as fp:
                fp.write(text)
        m = check_graph(g, case["backend"], case["retain"], case["dep"], case.get("as_string", False), case.get("spelling", "abs"))
        return [m] if m else []
    finally:
        shutil.rmtree(root, ignore_errors=True)


LEVEL_TEXT = ("Proved in Coq for EVERY marker stream (any include graph and depth, any file names without a double quote: suffixes/prefixes of "
              "one another, directories, blanks): the gcc, pcpp and msvc line-marker filters keep exactly the content written while the "
              "current file is the main file plus the markers that switch back to it (gcc_filter_keeps_main, pcpp_filter_keeps_main, "
              "msvc_filter_keeps_main); escaped names identify files (escaped_names_identify_files). The filter bodies are pinned by text "
              "on every run and the hand model is run against the real functions on synthetic streams and on real g++/pcpp output. Search: "
              "include graphs on disk through parse with the real gcc and pcpp backends x retain_all_content x depfile: declarations, macro "
              "expansion, main-file line numbers, depfile contents.")
LEVEL_NOTE = ("Trusted: Coq kernel, translator (text pin), extraction, driver, harness, g++ 12 and pcpp as found. msvc: no cl.exe in the "
              "sandbox, synthetic streams only. That real preprocessor output is an instance of the rendered marker streams is validated by "
              "the search, not proved.")
TECHNIQUE = "Coq proof of the filter specification for all marker streams + differential run on synthetic and real preprocessor output + include-graph search with real backends"

"""C06 -- Every input ends in a result or a CxxParseError that says where."""
import re

from harness.core import Corr, Search
from harness import impl, lexgen, blocks
from harness.props import c08

PID = "C06"
TITLE = "Every input ends in a result or a CxxParseError that says where"
THEOREM_FILE = "Props/C06.v"
MODELLED = ("lexer totality/rejections are proved on the lexer model over regenerated rules; bracket mismatch and block-structure "
            "rejections on the Balanced/Blocks models; the try/except wrapper is three AST facts; 'never any other exception' through "
            "2,800 lines of parser is a fact about CPython control flow: searched, not proved")
ASSUMPTIONS = ["non-verbose mode"]

PREFIX = re.compile(r"^(.*?):(-?\d+): ")


def correspond(ctx):
    corr = c08.correspond(ctx, n=ctx.scale(3000, 60000))
    # the keyword handlers translated into Gen/Dispatch.v (friend outside a class, extern blocks in a class): interpreter vs code
    from harness import dispatchcorr
    dispatchcorr.correspond_dispatch(ctx, corr, only=('friend', 'extern'))
    return corr


def check_any(text, fname="<str>"):
    """oracle for arbitrary input: result or CxxParseError with a sane location"""
    try:
        impl.parse_string(text, filename=fname)
        return None, "ok"
    except impl.CxxParseError as e:
        msg = str(e)
        # a '#line N "f"' / '# N "f"' directive re-bases the file name as well (C10)
        names = [fname] + [m.group(2) for m in re.finditer(r'#[\t ]*(line)? \d+ "(.*)"', text)]
        names = [n for n in names if msg.startswith(n + ":")]
        if not names:
            return "error message does not begin with the file name: %r" % msg[:80], "err"
        rest = msg[len(max(names, key=len)):]
        m = re.match(r":(-?\d+): ", rest)
        if m:
            line = int(m.group(1))
            nlines = text.count("\n") + 1
            if not re.search(r'#[\t ]*(line)? \d+ "', text):
                if not (1 <= line <= nlines):
                    return "error names line %d, the input has %d lines" % (line, nlines), "err"
        elif not rest.startswith(": "):
            return "error message has neither file:line: nor file: prefix: %r" % msg[:80], "err"
        if e.__cause__ is None and e.__context__ is None:
            pass
        return None, "err"
    except RecursionError:
        return None, "recursion"     # resource limit of the interpreter, not a parser verdict
    except Exception as e:  # noqa
        return "raised %s instead of CxxParseError: %s" % (type(e).__name__, str(e)[:100]), "other"


CONTEXTS = [("top", "@"), ("ns", "namespace n {\n@\n}"), ("nested_ns", "namespace a { namespace b {\n@\n} }"),
            ("extern", "extern \"C\" {\n@\n}"), ("class", "struct S {\n@\n};"), ("nested_class", "namespace n { class C { public: struct I {\n@\n}; }; }")]

# (name, text, contexts where it must be rejected)
BREAKERS = [
    ("paren_bracket", "int x = (1];", "all"), ("brace_paren", "int y{1);", "all"), ("bracket_brace", "int a[3};", "all"),
    ("attr_mismatch", "[[x(1]]] int v;", "all"), ("call_mismatch", "void f(int a = g(1, {2)));", "all"),
    ("stray_close", "}", ["top"]), ("stray_close_after", "int x; } int y;", ["top"]),
    ("open_brace_stmt", "{ int x; }", "all"),
    ("access_outside", "public: int x;", ["top", "ns", "nested_ns", "extern"]),
    ("friend_outside", "friend class F;", ["top", "ns", "nested_ns", "extern"]),
    ("ns_in_class", "namespace inner { int x; }", ["class", "nested_class"]),
    ("concept_in_class", "template <typename T> concept C1 = true;", ["class", "nested_class"]),
    ("pp_if", "#if FOO\nint x;\n#endif", "all"), ("pp_define", "#define X 1", "all"), ("pp_ifdef", "#ifdef A", "all"),
    ("pp_endif", "#endif", "all"), ("pp_undef", "#undef A", "all"), ("pp_error", "#error no", "all"),
    ("pp_ifndef_warning", "#ifndef NO_warning\n#define NO_warning\nint x;\n#endif // NO_warning", "all"),
    ("pp_define_line", "#define line_no 3", "all"), ("pp_if_pragma", "#if pragma_once", "all"),
    ("pp_elif_include", "#elif include_next", "all"), ("pp_define_define", "# define X", "all"),
    ("illegal_dollar", "int $x;", "all"), ("illegal_at", "int x = @;", "all"), ("illegal_backtick", "`", "all"),
    ("bad_octal", "int x = 08;", "all"), ("unmatched_quote", "char c = 'a;", "all"), ("empty_char", "char c = '';", "all"),
    ("bad_escape", "const char* s = \"\\%\";", "all"),
    ("virtual_var", "virtual int x;", ["top", "ns", "extern"]), ("explicit_fn", "explicit void f();", ["top", "ns", "extern"]),
    ("typedef_static", "typedef static int T;", "all"), ("param_static", "void f(static int a);", "all"),
    ("typedef_virtual", "typedef virtual int T;", "all"), ("mutable_typedef", "typedef mutable int T;", "all"),
    ("using_alias_static", "using A = static int;", "all"), ("extern_in_class", "extern \"C\" { int x; }", ["class", "nested_class"]),
    ("enum_fwd", "enum E;", "all"), ("typedef_init", "typedef int T = 3;", "all"), ("bitfield_outside", "int x : 3;", ["top", "ns", "extern"]),
    ("missing_semicolon", "int x int y;", "all"), ("fn_eq_garbage", "void f() = 1;", ["top", "ns", "extern"]),
]


PAIRS = [("(", ")"), ("[", "]"), ("{", "}")]
VALUE_HOSTS = ["int x[@];", "int y = @;", "void f(int a = @);", "struct S { int m[@]; };", "using T = int[@];", "enum E { A = @ };",
               "int z{@};", "[[a(@)]] int q;", "template <int N = @> struct W {};", "void g() noexcept(@);"]      # (static_assert and bodies are skipped by counting their own bracket kind only: not an enforced rule)


def nested(rng, depth):
    """a strictly nested bracket expression over ( ) [ ] { } as a token list"""
    out = []
    for _ in range(rng.randint(1, 3)):
        r = rng.random()
        if r < 0.45 and depth > 0:
            o, c = rng.choice(PAIRS)
            if o == "{":
                out += ["k"]
            out += [o] + nested(rng, depth - 1) + [c]
        else:
            out.append(rng.choice(["a", "1", "b", "n"]))
            if rng.random() < 0.35 and depth > 0:
                out += ["["] + nested(rng, depth - 1) + ["]"]          # subscripts: closers pile up as ']]'
        if rng.random() < 0.4:
            out.append(rng.choice(["+", ",", "*"]))
    if out[-1] in "+,*":
        out.append("c")
    return out


def break_brackets(rng, toks):
    """make the expression mismatched: swap a closer for one of another kind, drop an opener, or add a stray closer"""
    toks = list(toks)
    closers = [i for i, t in enumerate(toks) if t in ")]}"]
    openers = [i for i, t in enumerate(toks) if t in "([{"]
    r = rng.random()
    if r < 0.5 and closers:
        i = rng.choice(closers)
        toks[i] = rng.choice([c for c in ")]}" if c != toks[i]])
    elif r < 0.65 and openers:
        del toks[rng.choice(openers)]
    elif r < 0.85 and [i for i in closers if toks[i] != "}"]:
        # (a dropped '}' can be made up for by the closing brace of an enclosing class, which leaves the class
        #  open at end of input: that is not a rule the parser enforces, so only ')' and ']' are dropped)
        del toks[rng.choice([i for i in closers if toks[i] != "}"])]
    else:
        toks.insert(rng.randint(0, len(toks)), rng.choice(")]}"))
    return toks


def pile_up(rng):
    """nested groups whose closers pile up at the end; one closer that is not ']' is dropped, so that two ']' become
    adjacent (one DBL_RBRACKET token) across the group that is left open"""
    k = rng.randint(2, 4)
    kinds = [rng.choice(PAIRS) for _ in range(k)]
    kinds[0] = ("[", "]")
    kinds[-1] = ("[", "]")
    if not any(o == "(" for o, _ in kinds):
        kinds.insert(1, ("(", ")"))
    toks = []
    for o, c in kinds:
        toks += [rng.choice(["a", "b", "k"]), o]
    toks.append(rng.choice(["0", "n"]))
    closers = [c for _, c in reversed(kinds)]
    drop = rng.choice([i for i, c in enumerate(closers) if c == ")"])      # never '}' (see break_brackets)
    if rng.random() < 0.5:
        closers[drop] = "]"        # the wrong closer instead of none: the ']' run grows by one
    else:
        del closers[drop]
    return toks[1:] + closers if rng.random() < 0.5 else ["x"] + toks[1:] + closers + rng.choice([[], ["+", "1"]])


def gen_mismatch(rng):
    if rng.random() < 0.3:
        e = pile_up(rng)
        if e[0] == "[":
            e = e[1:-1] if e[-1] == "]" and rng.random() < 0.5 else ["v"] + e
        text = "".join(e).replace("[[", "[ [")
        return rng.choice(VALUE_HOSTS).replace("@", text)
    e = break_brackets(rng, nested(rng, rng.choice([1, 2, 3])))
    sep = rng.choice([" ", ""])
    text = sep.join(e)
    if sep == "":
        text = text.replace("[[", "[ [")          # '[[' opens an attribute; ']]' stays adjacent on purpose
    return rng.choice(VALUE_HOSTS).replace("@", text)


PREFIXES = ["template <typename T> ", "template <typename T> requires C<T> ", "template <typename T> requires (sizeof(T) > 1)\n",
            "[[deprecated]] ", "alignas(8) ", "/** doc */ ", "template <> "]
BREAKERS += [("friend_fn_outside", "friend void f(int);", ["top", "ns", "nested_ns", "extern"]),
             ("friend_fn_body_outside", "friend int g(int a) { return a; }", ["top", "ns", "nested_ns", "extern"]),
             ("friend_struct_outside", "friend struct F;", ["top", "ns", "nested_ns", "extern"])]


def check_breaker(name, text, ctxname, tmpl):
    src = tmpl.replace("@", text)
    try:
        impl.parse_string(src)
    except impl.CxxParseError:
        return None
    except Exception as e:
        return "rule-breaking input %s in %s raised %s" % (name, ctxname, type(e).__name__)
    return "rule-breaking input %s in %s context was silently accepted" % (name, ctxname)


def truncations(text):
    toks = []
    try:
        lx = impl.L.PlyLexer("<str>")
        lx.input(text)
        while True:
            t = lx.token()
            if t is None:
                break
            toks.append(t.lexpos)
    except impl.L.LexError:
        pass
    return toks


def search(ctx, boost=False):
    s = Search()
    s.rule = ("(1) random text / token- and byte-level mutations of corpus and generated headers / random unicode: parse returns or raises "
              "CxxParseError only, message starts 'file:line: ' with an existing line (or 'file: '); (2) truncation of valid headers at "
              "every token boundary; (3) %d systematically constructed rule-breaking inputs in each of %d block contexts must be rejected; "
              "non-trivial = input that reaches an error path; distinct = distinct text" % (len(BREAKERS), len(CONTEXTS)))
    rng = ctx.rng
    n = ctx.scale(2500, 80000) * (3 if boost else 1)
    base = list(impl.corpus())
    for _ in range(ctx.scale(40, 600)):
        base.append(blocks.gen_program(rng, rng.choice([4, 8, 20])).source())
    for _ in range(n):
        r = rng.random()
        if r < 0.45:
            t = lexgen.mutate(rng, rng.choice(base))
        elif r < 0.65:
            t = lexgen.gen_text(rng, rng.choice([2, 6, 20]))
        elif r < 0.75:
            t = lexgen.gen_unicode(rng, rng.randint(1, 25))
        elif r < 0.9:
            # token-level mutation: delete/duplicate/swap a token
            src = rng.choice(base)
            cuts = truncations(src)
            if len(cuts) > 2:
                i, j = sorted(rng.sample(range(len(cuts)), 2))
                m = rng.random()
                if m < 0.4:
                    t = src[:cuts[i]] + src[cuts[j]:]
                elif m < 0.7:
                    t = src[:cuts[j]] + src[cuts[i]:cuts[j]] + src[cuts[j]:]
                else:
                    t = src[:cuts[i]] + src[cuts[j]:] + src[cuts[i]:cuts[j]]
            else:
                t = src
        else:
            t = lexgen.mutate(rng, blocks.gen_program(rng, 6, cross=True).source())
        fname = rng.choice(["<str>", "a b.h", "d/x.hpp"])
        s.evaluations += 1
        msg, kind = check_any(t, fname)
        s.count(kind)
        if kind != "ok":
            s.nontrivial.add(t)
        if msg:
            s.violations.append(dict(what=msg, case=dict(kind="any", text=t, fname=fname)))
    # truncations
    for src in rng.sample(base, min(len(base), ctx.scale(25, 400))):
        for cut in truncations(src):
            s.evaluations += 1
            s.count("truncation")
            msg, kind = check_any(src[:cut])
            if kind != "ok":
                s.nontrivial.add(src[:cut])
            if msg:
                s.violations.append(dict(what=msg, case=dict(kind="any", text=src[:cut], fname="<str>")))
    # rule breakers
    for name, text, where in BREAKERS:
        for cname, tmpl in CONTEXTS:
            if where != "all" and cname not in where:
                continue
            s.evaluations += 1
            s.count("breaker")
            s.nontrivial.add(tmpl.replace("@", text))
            msg = check_breaker(name, text, cname, tmpl)
            if msg:
                s.violations.append(dict(what=msg, case=dict(kind="breaker", name=name, text=text, ctx=cname, tmpl=tmpl)))
    # the same rule breakers behind the decorations a declaration may carry (template headers, requires-clauses, attributes, doc comments)
    for name, text, where in BREAKERS:
        if text.startswith("#") or name in ("stray_close", "stray_close_after", "open_brace_stmt"):
            continue
        for pre in PREFIXES:
            for cname, tmpl in CONTEXTS:
                if where != "all" and cname not in where:
                    continue
                s.evaluations += 1
                s.count("decorated breaker")
                s.nontrivial.add(tmpl.replace("@", pre + text))
                msg = check_breaker(name, pre + text, cname, tmpl)
                if msg:
                    s.violations.append(dict(what=msg + ": " + pre + text, case=dict(kind="breaker", name=name, text=pre + text, ctx=cname, tmpl=tmpl)))
    # systematically mismatched brackets in every place an unparsed value or a skipped group can stand
    for _ in range(ctx.scale(600, 15000) * (3 if boost else 1)):
        text = gen_mismatch(rng)
        cname, tmpl = rng.choice(CONTEXTS[:4]) if "struct" in text or "template" in text or "enum" in text else rng.choice(CONTEXTS)
        s.evaluations += 1
        s.count("mismatch")
        s.nontrivial.add(text)
        msg = check_breaker("mismatched brackets", text, cname, tmpl)
        if msg:
            s.violations.append(dict(what=msg + ": " + text, case=dict(kind="breaker", name="mismatched brackets", text=text, ctx=cname, tmpl=tmpl)))
    s.samples = [dict(text=t[:160]) for t in list(s.nontrivial)[:3]]
    return s


def replay(ctx, case):
    if case.get("kind") == "any":
        m, _ = check_any(case["text"], case.get("fname", "<str>"))
    elif case.get("kind") == "breaker":
        m = check_breaker(case["name"], case["text"], case["ctx"], case["tmpl"])
    else:
        m = None
    return [m] if m else []


LEVEL_TEXT = ("Proved in Coq: for every code-point string the lexer model (over the regenerated rules) ends with tokens or a located error, "
              "never stuck (lex_total); a lexical error names the file and 1 + the newlines lexed before the offending text when no #line "
              "intervenes (lex_error_line_exists); every character that starts no rule, is no literal and is not ignored is rejected where "
              "it stands, whatever surrounds it (illegal_char_rejected, via a proved first-character analysis of the regexes); a '#' is a "
              "pragma/include token, a dropped #line/#warning, or an error (hash_is_directive_or_error); a closer not matching the innermost "
              "open bracket is rejected outside the '<' '>' tolerance (mismatch_rejected); a stray '}' at the root and an access specifier "
              "outside a class stop the block machine and nothing is delivered afterwards; the try/except wrapper shape is three recomputed "
              "AST facts (wrapper_total). Search: mutated/truncated/random inputs must yield a result or CxxParseError with a sane "
              "file:line prefix; %d rule-breaking constructs x %d block contexts must be rejected. On the keyword handlers as translated from "
              "the code on every run (Gen/Dispatch.v): `friend` outside a class body and a linkage specification / extern template inside "
              "one are parse errors (friend_outside_a_class_rejected, linkage_specification_in_a_class_rejected)." % (len(BREAKERS), len(CONTEXTS)))
LEVEL_NOTE = ("Trusted: Coq kernel, translator, extraction, driver, harness. 'No other exception type ever escapes' is established by search "
              "only (parser bulk un-modelled). Specifier rules (ParsedTypeModifiers.validate) are searched, not modelled.")
TECHNIQUE = "Coq proofs (lexer totality, first-set analysis, rejection lemmas on regenerated rules and machines) + AST facts + mutation/truncation/rule-breaker search"

"""C10 -- Reported line numbers and file names are the real ones."""
import re

from harness.core import Corr, Search
from harness import impl, blocks, lexgen
from harness.props import c08

PID = "C10"
TITLE = "Reported line numbers and file names are the real ones"
THEOREM_FILE = "Props/C10.v"
MODELLED = ("lexer-side stamping (line counter, #line re-basing, error location) is modelled and proved; which token's location the "
            "parser copies into state.location (parser bulk) is covered by the placed-declaration search")
ASSUMPTIONS = ["declarations used by the search are written on one line each"]

PRE = ["", "\n", "\n\n\n", "// c\n", "/* a\n b\n c */\n", "/* x */ /* y\n */\n", "   \n\t\n", "/// doc\n", "\r\n", "\\\n", " \\\n \\\n", "/**/\n",
       "#warning w\n", "// a \\\n"]


def correspond(ctx):
    return c08.correspond(ctx, n=ctx.scale(3000, 60000))


def place(rng, g, with_line=False):
    """interleave layout material between the generator's lines; returns (source, physical line of each generator line,
    expected (file, offset) in force at each generator line)"""
    out = []
    phys = {}
    inforce = {}
    cur = 1
    fname = "<str>"
    off = 0
    for i, line in enumerate(g.lines, 1):
        if rng.random() < 0.35:
            m = rng.choice(PRE)
            # a continuation directly before a directive line would join them
            if m.endswith("\\\n") and line.startswith("#"):
                m = "\n"
            out.append(m)
            cur += m.count("\n")
        if with_line and rng.random() < 0.12:
            n = rng.choice([1, 5, 100, cur + 1, cur + 2, 0])
            f = rng.choice(["a.h", "dir/b.h", "c d.h", "<str>"])
            form = rng.choice(['#line %d "%s"\n', '# %d "%s"\n', '# %d "%s" 1 3\n'])
            out.append(form % (n, f))
            fname = f
            off = cur + 1 - n          # tokens on physical line cur+1 are reported at line n
            cur += 1
        phys[i] = cur
        inforce[i] = (fname, off)
        out.append(line + "\n")
        cur += 1
    return "".join(out), phys, inforce


def expected_locs(g, phys, inforce):
    """(callback name, expected file, expected line) for start and item events"""
    exp = []
    for e in g.events:
        if e[0] == "open":
            line = e[3]
            exp.append(("start", inforce[line][0], phys[line] - inforce[line][1]))
        elif e[0] == "item":
            line = e[2]
            if len(e) > 3:      # multi-line extent (anonymous member): any line of it, if no marker intervenes
                lo = e[3]
                if inforce[lo] == inforce[line]:
                    exp.append((e[1], inforce[line][0], phys[line] - inforce[line][1], phys[lo] - inforce[lo][1]))
                else:
                    exp.append((e[1], None, None))
            else:
                exp.append((e[1], inforce[line][0], phys[line] - inforce[line][1]))
    return exp


NO_LOCATION = set()   # callbacks for which the parser does not re-stamp state.location (none expected)


def check_placed(src, exp):
    rec, err = blocks.run_real(src)
    if err is not None:
        return "placed program does not parse: %s" % err
    got = []
    for (name, state, payload), loc in zip(rec.raw, rec.locs):
        if name in blocks.START:
            got.append(("start", loc.filename, loc.lineno))
        elif name in blocks.CB_CODE:
            got.append((name, loc.filename, loc.lineno))
    if len(got) != len(exp):
        return "callback count differs from the generator's plan (%d vs %d)" % (len(got), len(exp))
    for g1, e1 in zip(got, exp):
        if g1[0] != e1[0] and e1[0] != "start":
            return "callback order differs from the plan: %s vs %s" % (g1[0], e1[0])
        if g1[0] in NO_LOCATION:
            continue
        if e1[1] is None:
            continue
        if len(e1) > 3:
            if g1[1] != e1[1] or not (e1[3] <= g1[2] <= e1[2]):
                return "%s reports %s:%d, outside the declaration's extent %s:%d-%d" % (g1[0], g1[1], g1[2], e1[1], e1[3], e1[2])
            continue
        if (g1[1], g1[2]) != (e1[1], e1[2]):
            return "%s reports %s:%d, the declaration is at %s:%d" % (g1[0], g1[1], g1[2], e1[1], e1[2])
    return None


ERR_LINE = re.compile(r"^(.*?):(-?\d+): ")


def check_error(pre, bad, fname="<str>"):
    """lexical error on a known line"""
    src = pre + bad
    line = 1 + pre.count("\n")
    try:
        impl.parse_string(src)
    except impl.CxxParseError as e:
        m = ERR_LINE.match(str(e))
        if not m:
            return "error message has no file:line prefix: %r" % str(e)[:80]
        if m.group(1) != fname or int(m.group(2)) != line:
            return "lexical error reported at %s:%s, offending character is on line %d" % (m.group(1), m.group(2), line)
        return None
    return None


def check_shift(src, k):
    """prepending k lines shifts every reported line by exactly k"""
    a, ea = blocks.run_real(src)
    b, eb = blocks.run_real("\n" * k + src)
    # index 0 is on_parse_start: the root state's location is the start of the input, not a declaration
    # ... and so is the end callback that a stray '}' at the root delivers for the root state just before the error
    def keep(rec, j):
        name, state, _ = rec.raw[j]
        return not (name in blocks.END and getattr(state, "parent", None) is None)
    la = [(l.filename, l.lineno) for j, l in enumerate(a.locs) if j >= 1 and keep(a, j)]
    lb = [(l.filename, l.lineno - k) for j, l in enumerate(b.locs) if j >= 1 and keep(b, j)]
    if la != lb:
        return "prepending %d lines does not shift every reported line by %d" % (k, k)
    if (ea is None) != (eb is None):
        return "prepending lines changes whether the input parses"
    if ea is not None:
        ma, mb = ERR_LINE.match(str(ea)), ERR_LINE.match(str(eb))
        if ma and mb and int(mb.group(2)) - int(ma.group(2)) != k:
            return "prepending %d lines shifts the error line by %d" % (k, int(mb.group(2)) - int(ma.group(2)))
    return None


BAD = ["int x = $;", "int y = `1`;", "char c = 'ab;\n", "int z = 08;", "char d = '';", "const char* s = \"\\q\";", "@"]


def search(ctx, boost=False):
    s = Search()
    s.rule = ("generated block programs (one construct per line) with random comment/blank/continuation material between lines and "
              "#line / '# N file' markers at random positions: every start/item callback must report the file in force and the physical "
              "line (re-based) of its declaration; prepend-k-lines metamorphic check on valid and invalid inputs; lexical errors placed on "
              "known lines; non-trivial = program with >=1 inserted layout or marker; distinct = distinct source")
    rng = ctx.rng
    n = ctx.scale(500, 12000) * (3 if boost else 1)
    for i in range(n):
        g = blocks.gen_program(rng, rng.choice([4, 8, 14, 30]))
        src, phys, inforce = place(rng, g, with_line=(i % 2 == 1))
        s.evaluations += 1
        if len(src) != sum(len(l) + 1 for l in g.lines):
            s.nontrivial.add(src)
        s.count("placed" + ("+line" if i % 2 else ""))
        msg = check_placed(src, expected_locs(g, phys, inforce))
        if msg:
            s.violations.append(dict(what=msg, case=dict(kind="placed", source=src, expected=expected_locs(g, phys, inforce))))
        if i % 5 == 0:
            k = rng.choice([1, 2, 7, 100])
            s.evaluations += 1
            s.count("shift")
            src2 = src if rng.random() < 0.7 else lexgen.mutate(rng, src)
            if "#" in src2:
                src2 = "\n".join(l for l in src2.split("\n") if "#" not in l)      # markers re-base the line counter
            msg = check_shift(src2, k)
            if msg:
                s.violations.append(dict(what=msg, case=dict(kind="shift", source=src2, k=k)))
        if i % 4 == 0:
            parts = []
            for _ in range(rng.randint(0, 6)):
                c = rng.choice(PRE + ["int a;\n", "struct S {\n", "namespace n {\n"])
                if c == "namespace n {\n" and "struct S {\n" in parts:
                    c = "int a;\n"         # a namespace inside a class is a parse error of its own, on an earlier line
                parts.append(c)
            pre = "".join(parts)
            if pre.endswith("\\\n"):
                pre += "\n"
            bad = rng.choice(BAD)
            s.evaluations += 1
            s.count("lex-error")
            msg = check_error(pre, bad)
            if msg:
                s.violations.append(dict(what=msg, case=dict(kind="error", pre=pre, bad=bad)))
        if len(s.samples) < 2 and i > 3 and "#line" in src:
            s.samples.append(dict(source=src))
    return s


def replay(ctx, case):
    k = case.get("kind")
    if k == "placed":
        m = check_placed(case["source"], [tuple(e) for e in case["expected"]])
    elif k == "shift":
        m = check_shift(case["source"], case["k"])
    elif k == "error":
        m = check_error(case["pre"], case["bad"])
    else:
        m = None
    return [m] if m else []


LEVEL_TEXT = ("Proved in Coq for every input: the location stamped on a token is (file name in force, line counter after the token minus "
              "the offset in force) and only a '#line N \"f\"' / '# N \"f\"' directive changes them, to f and 1+line-N (stamping_spec); the "
              "line counter is the physical line (line_counter_is_physical); a lexical error is located at the state reached by the "
              "pieces before it (lex_error_location); the lexer never reads its own counter, so starting k lines later shifts every "
              "stamped and error line by exactly k (prepend_shift), and any prefix acts only through the state it leaves "
              "(resume_after_prefix). Tie: lexer differential incl. stamped locations and error locations. Which token's location the "
              "parser copies into state.location is searched: placed declarations with layout material and #line markers, prepend-k "
              "metamorphic runs, lexical errors on known lines.")
LEVEL_NOTE = ("Trusted: Coq kernel, translator, the hand-written '#line' recogniser (mirror of _line_re, differential-tested), extraction, "
              "driver, harness. Parser-side location plumbing: search only.")
TECHNIQUE = "Coq proof of the stamping specification and shift-invariance over regenerated lexer rules + lexer differential + placed-declaration search"

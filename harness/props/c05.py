"""C05 -- Returning False from a start callback prunes exactly that block."""
import itertools

from harness.core import Corr, Search, run_driver
from harness import blocks

PID = "C05"
TITLE = "Returning False from a start callback prunes exactly that block"
THEOREM_FILE = "Props/C05.v"
MODELLED = ("the block skeleton (state stack, visitor swap) is generated as effect atoms from the ASTs of _setup_state, "
            "_pop_state, _on_block_end and the three start sites and interpreted by Parse/BlocksSM.v; which source constructs "
            "produce which block events (parser bulk) is covered by the end-to-end correspondence on generated programs")
ASSUMPTIONS = ["skip decisions are a function of the block (the visitor is otherwise arbitrary)"]


def one_case(rng, budget, p_skip):
    g = blocks.gen_program(rng, budget, item_rate=0.45)
    l2i = blocks.open_lines(g.events)
    skip = sorted(i for i in l2i.values() if rng.random() < p_skip)
    return g, l2i, skip


def correspond(ctx):
    corr = Corr()
    n = ctx.scale(1200, 20000)
    cases = [one_case(ctx.rng, ctx.rng.choice([3, 8, 20, 50]), ctx.rng.choice([0.0, 0.2, 0.5])) for _ in range(n)]
    outs = run_driver([blocks.encode_events(g.events, skip) for g, _, skip in cases])
    for (g, l2i, skip), mo in zip(cases, outs):
        ms, status = blocks.decode_stream(mo)
        skip_lines = [l for l, i in l2i.items() if i in skip]
        rec, err = blocks.run_real(g.source(), l2i, skip_lines)
        corr.cases += 1
        k = "blocks=%d" % min(len(l2i), 8)
        corr.dist[k] = corr.dist.get(k, 0) + 1
        if err is not None or ms != rec.stream or status != 0:
            corr.disagreements.append(dict(case=dict(source=g.source(), skip=skip), model=str(ms)[:400],
                                           impl=str(rec.stream)[:400], err=str(err)))
    corr.samples = [dict(source=cases[i][0].source(), skip_block_ids=cases[i][2]) for i in range(min(2, len(cases)))]
    corr.note = "generated block programs x skip sets: callback stream of the real parser (recording visitor) vs stream of the interpreted atoms (extracted)"
    return corr


def check_prune(source, l2i, skip):
    """the property, on the implementation alone"""
    full, err0 = blocks.run_real(source, l2i, [])
    if err0 is not None:
        return "program does not parse without skipping: %s" % err0
    skip_lines = [l for l, i in l2i.items() if i in skip]
    got, err = blocks.run_real(source, l2i, skip_lines)
    if err is not None:
        return "skipping %s makes parsing fail: %s" % (skip, err)
    want = blocks.prune_stream(full.stream, set(skip))
    if got.stream != want:
        return "skip set %s: delivered stream differs from the pruned unskipped stream" % (skip,)
    return None


def search(ctx, boost=False):
    s = Search()
    s.rule = ("generated block trees (namespaces, extern blocks, classes incl. typedef/trailing-declarator/anonymous forms) x "
              "skip subsets: all subsets for trees with <= 6 blocks in the exhaustive part, random subsets beyond; oracle: "
              "skipped stream == unskipped stream with the subtrees and end callbacks removed; non-trivial = at least one "
              "skipped block with content after it; distinct = distinct (source, skip set)")
    rng = ctx.rng
    n = ctx.scale(250, 4000) * (4 if boost else 1)
    for _ in range(n):
        g = blocks.gen_program(rng, rng.choice([4, 8, 14, 30, 60]), item_rate=0.45)
        l2i = blocks.open_lines(g.events)
        ids = sorted(l2i.values())
        src = g.source()
        if len(ids) <= (6 if not ctx.thorough else 7):
            subsets = [list(c) for r in range(len(ids) + 1) for c in itertools.combinations(ids, r)]
        else:
            subsets = [sorted(i for i in ids if rng.random() < p) for p in (0.15, 0.3, 0.6)] + [[i] for i in rng.sample(ids, min(4, len(ids)))]
        for skip in subsets:
            s.evaluations += 1
            if skip:
                s.nontrivial.add((src, tuple(skip)))
            s.count("blocks=%d" % min(len(ids), 10))
            msg = check_prune(src, l2i, skip)
            if msg:
                s.violations.append(dict(what=msg, case=dict(kind="prune", source=src, skip=skip)))
        if len(s.samples) < 2 and 2 <= len(ids) <= 5:
            s.samples.append(dict(source=src, skip_sets_tried=len(subsets)))
    return s


def replay(ctx, case):
    if case.get("kind") != "prune":
        return []
    src = case["source"]
    # recompute opening lines from the source itself
    rec, _ = blocks.run_real(src)
    l2i = {}
    k = 0
    for name, state, _p in rec.raw:
        if name in blocks.START:
            k += 1
            l2i[state.location.lineno] = k
    m = check_prune(src, l2i, case["skip"])
    return [m] if m else []


LEVEL_TEXT = ("Proved in Coq for every event list (any block tree, nesting depth, unbalanced closes included) and every skip set: the "
              "stream delivered by the block machine equals the unskipped stream with exactly the skipped subtrees and their end "
              "callbacks removed (skip_is_prune), by a simulation invariant over the saved-visitor stack. The machine is not "
              "hand-transcribed: the statements of _setup_state, _pop_state, _on_block_end, the three 'is False -> null_visitor' "
              "sites are re-extracted from parser.py's AST on every run as effect atoms and interpreted; atoms_are_spec proves the "
              "interpretation equals the closed-form machine. End-to-end correspondence: real parser + recording visitor vs model on "
              "generated programs x skip sets; search: all skip subsets of small trees, random beyond, on the implementation.")
LEVEL_NOTE = ("Trusted: Coq kernel, the atom vocabulary of translate/gen_blocks.py (statement text -> atom), extraction, driver, harness. "
              "Which constructs open/close blocks is validated by correspondence, not proved.")
TECHNIQUE = "Coq simulation proof over regenerated effect atoms + end-to-end differential run + exhaustive skip-subset search on small trees"

"""C02 -- Declarators decode to the C++ type they denote."""
import itertools

from harness.core import Corr, Search, run_driver
from harness import impl, decl
from cxxheaderparser.simple import parse_string
from cxxheaderparser import types as T

PID = "C02"
TITLE = "Declarators decode to the C++ type they denote"
THEOREM_FILE = "Props/C02.v"
MODELLED = ("Parse/Declarator.v is a hand-written mirror of _parse_cv_ptr_or_fn (pointer/cv loop, grouping-parenthesis detection, look-behind for "
            "array / parameter list, token re-injection, reference suffix), _parse_array_type, _parse_parameters/_parse_parameter and the variable "
            "head, over base types `[const] [volatile] NAME|void`; token push-back is list append. The five mirrored functions are pinned by an AST digest "
            "(translate/gen_declpin.py fails closed on any edit) and the token sets they test for are regenerated and compared with the model's "
            "(declarator_code_is_the_modelled_one). _parse_pqname without template arguments (typename, class keys, leading '::', qualified names, "
            "fundamental groups) is modelled in Parse/PQName.v over the regenerated keyword sets and tied by calling the real method. NOT modelled (covered by the context search "
            "only): qualified / templated / fundamental-group / decltype base names, the nonptr_fn path of template arguments and the "
            "type-or-value trial parse, parameter packs, defaults, trailing return types, calling conventions, member pointers, the dispatch in "
            "_parse_decl that chooses between variable, function, typedef, field")
ASSUMPTIONS = ["array sizes and the token after the declarator are bracket-balanced token lists ('<' '>' free)",
               "the token after a declarator is one that can follow it (not * & && const volatile ( [ NAME ... =)"]

KNOWN_CLASSIFIERS = {
    "alias_of_function_type": lambda case: case.get("ctx") == "alias" and case.get("outer") == "F",
}


# ---------------------------------------------------------------------------
# correspondence: model parse_var vs the real parser on the same token lists

MUT_ALPHA = ['*', '&', '&&', '(', ')', '[', ']', 'const', 'volatile', 'x', 'Foo', ',', '...', '3', 'void']


def real_var(text):
    try:
        d = parse_string(text)
    except impl.CxxParseError:
        return ('err',)
    except AssertionError:
        return ('err',)
    except RecursionError:
        return ('err',)
    ns = d.namespace
    if len(ns.variables) != 1 or ns.functions or ns.typedefs or ns.classes or ns.using_alias or ns.enums or ns.forward_decls:
        return ('other',)
    v = ns.variables[0]
    if v.value is not None or v.static or v.extern or v.constexpr or v.inline or v.template or len(v.name.segments) != 1:
        return ('other',)
    try:
        return ('ok', v.name.segments[0].name, decl.from_real(v.type))
    except decl.Unrepresentable:
        return ('other',)


def model_var(toklists):
    """toklists: list of list of token spellings. Returns list of ('ok', name, tree) | ('err', code)"""
    lines, nms = [], []
    for toks in toklists:
        names = decl.Names()
        lines.append([80] + decl.enc_tokens(toks, names))
        nms.append(names)
    outs = run_driver(lines)
    res = []
    for o, names in zip(outs, nms):
        if o[0] == 0:
            t, _ = decl.dec_type(o, 3, names)
            res.append(('ok', names.rev.get(o[1], '?'), t, o[2]))
        else:
            res.append(('err', o[1]))
    return res


def mutate(rng, toks):
    toks = list(toks)
    for _ in range(rng.choice([1, 1, 2, 3])):
        m = rng.random()
        i = rng.randrange(len(toks) + 1)
        if m < 0.35 and toks:
            del toks[min(i, len(toks) - 1)]
        elif m < 0.75:
            toks.insert(i, rng.choice(MUT_ALPHA))
        elif len(toks) >= 2:
            j = min(i, len(toks) - 2)
            toks[j], toks[j + 1] = toks[j + 1], toks[j]
    return toks


def corr_cases(ctx, boost=False):
    rng = ctx.rng
    depth = 4 if (ctx.thorough or boost) else 3
    valid = [t for t in decl.enum_types(depth)]
    for _ in range(ctx.scale(1500, 30000)):
        valid.append(decl.rand_type(rng, rng.choice([3, 5, 7, 9])))
    cases = []
    for t in valid:
        cases.append(('valid', decl.print_decl(t, 'x') + [';'], t))
    base = [c for c in cases if decl.var_ok(c[2])]
    for _ in range(ctx.scale(1500, 30000)):
        c = rng.choice(base)
        cases.append(('mutated', mutate(rng, c[1][:-1]) + [';'], None))
    return cases


def compare(kind, toks, t, m, r):
    """returns a description of a disagreement or None"""
    if m[0] == 'ok':
        if m[3] != 1:
            return None          # the model stopped before the ';' (initialisers etc.): outside parse_var's contract
        if r[0] != 'ok':
            return "model decodes %s but the implementation %s" % (decl.show(m[2], m[1]), "rejects the input" if r[0] == 'err' else "reports something else")
        if (r[1], r[2]) != (m[1], m[2]):
            return "model: %s; implementation: %s" % (decl.show(m[2], m[1]), decl.show(r[2], r[1]))
        return None
    if m[1] == 9:
        return "model ran out of fuel"
    if m[1] in (1, 2, 3) and r[0] == 'ok':
        return "model rejects (code %d) but the implementation reports %s" % (m[1], decl.show(r[2], r[1]))
    return None


def real_alias(text):
    try:
        d = parse_string(text)
    except (impl.CxxParseError, AssertionError, RecursionError):
        return ('err',)
    ns = d.namespace
    if len(ns.using_alias) != 1 or ns.variables or ns.functions or ns.typedefs or ns.classes:
        return ('other',)
    try:
        return ('ok', 'A', decl.from_real(ns.using_alias[0].type))
    except decl.Unrepresentable:
        return ('other',)


def correspond_alias(ctx, corr):
    """the alias type-id model (alias_type) vs `using A = ...;`"""
    rng = ctx.rng
    cases = []
    for _ in range(ctx.scale(600, 12000)):
        while True:
            t = decl.rand_type(rng, rng.choice([0, 1, 2, 3, 5, 7]))
            if t[0] != 'F' and not decl.is_void(t):
                break
        toks = decl.print_decl(t, None) + [';']
        cases.append(('alias-valid', toks, t))
        if rng.random() < 0.5:
            cases.append(('alias-mutated', mutate(rng, toks[:-1]) + [';'], None))
    lines, nms = [], []
    for _, toks, _ in cases:
        names = decl.Names()
        lines.append([86] + decl.enc_tokens(toks, names))
        nms.append(names)
    outs = run_driver(lines)
    for (kind, toks, t), o, names in zip(cases, outs, nms):
        corr.cases += 1
        if o[0] == 0:
            mt, _ = decl.dec_type(o, 3, names)
            m = ('ok', 'A', mt, o[2])
        else:
            m = ('err', o[1])
        r = real_alias('using A = ' + ' '.join(toks))
        key = kind + ":" + (m[0] if m[0] == 'ok' else 'err%d' % m[1]) + "/" + r[0]
        corr.dist[key] = corr.dist.get(key, 0) + 1
        msg = compare(kind, toks, t, m, r)
        if msg is None and kind == 'alias-valid' and (m[0] != 'ok' or m[2] != t):
            msg = "model does not decode the printed type-id `%s`" % ' '.join(toks)
        if msg:
            corr.disagreements.append(dict(case=dict(kind='corr-alias', tokens=toks), model=str(m)[:300], impl=str(r)[:300], what="alias: " + msg))


PQ_WORDS = ['Foo', 'Bar', 'ns', 'T', '::', '::', 'unsigned', 'long', 'int', 'char', 'short', 'signed', 'double', 'float', 'void', 'bool', 'wchar_t',
            'struct', 'class', 'union', 'enum', 'typename', 'const', '*', '&', '(', 'x', ';', '<', 'final', 'auto', 'operator', 'decltype', 'template']


def real_pqname(strs):
    toks = [impl.mk_tok(decl.tok_type(s), s) for s in strs]
    p = impl.parser_over(toks)
    try:
        q, op = p._parse_pqname(None, compound_ok=True, fund_ok=True)
    except (impl.CxxParseError, EOFError):
        return ('err',)
    except (AssertionError, IndexError, KeyError, AttributeError):
        return ('other',)
    if op:
        return ('other',)
    segs = []
    for sg in q.segments:
        if isinstance(sg, T.FundamentalSpecifier):
            segs.append(('fund', tuple(sg.name.split())))
        elif isinstance(sg, T.NameSpecifier):
            if sg.specialization is not None:
                return ('other',)
            segs.append(('root',) if sg.name == '' else ('name', sg.name))
        else:
            return ('other',)
    return ('ok', q.has_typename, tuple((q.classkey or '').split()), segs, len(p.lex.tokbuf))


def gen_pqname(rng):
    r = rng.random()
    pre = []
    if r < 0.15:
        pre = ['typename']
    elif r < 0.35:
        pre = rng.choice([['struct'], ['class'], ['union'], ['enum'], ['enum', 'class'], ['enum', 'struct']])
    if rng.random() < 0.35 and not pre:
        n = rng.choice([1, 1, 2, 3, 4])
        body = [rng.choice(['unsigned', 'long', 'int', 'char', 'short', 'signed', 'double', 'float']) for _ in range(n)] if rng.random() < 0.7 \
            else [rng.choice(['void', 'bool', 'wchar_t', 'char16_t', 'nullptr_t'])]
    else:
        body = (['::'] if rng.random() < 0.25 else [])
        names = [rng.choice(['Foo', 'Bar', 'ns', 'T', 'a']) for _ in range(rng.choice([1, 1, 2, 3]))]
        for i, nm in enumerate(names):
            if i:
                body.append('::')
            body.append(nm)
        if rng.random() < 0.15:
            body += ['::', rng.choice(['int', 'void', 'unsigned'])]
    tail = [rng.choice(['x', '*', '&', '(', ';', 'const', ',', ')', 'int', 'Foo'])]
    return pre + body + tail


def correspond_pqname(ctx, corr):
    """qualified names and fundamental groups: extracted parse_pqname vs the real _parse_pqname on the same token lists"""
    rng = ctx.rng
    cases = []
    for _ in range(ctx.scale(1500, 30000)):
        toks = gen_pqname(rng)
        if rng.random() < 0.3:
            toks = [rng.choice(PQ_WORDS) for _ in range(rng.choice([1, 2, 3, 5]))] if rng.random() < 0.4 else (mutate(rng, toks) or ['x'])
            toks = [t for t in toks if t not in ('...', '[', ']', ')', '3', '&&', 'volatile')] or ['x']
        cases.append(toks)
    lines, nms = [], []
    for toks in cases:
        names = decl.Names()
        lines.append([97] + decl.enc_tokens(toks, names))
        nms.append(names)
    outs = run_driver(lines)
    for toks, o, names in zip(cases, outs, nms):
        corr.cases += 1
        if o[0] == 0:
            kl = o[3]
            key = tuple(impl.TT[x] for x in o[4:4 + kl])
            i = 4 + kl
            cnt = o[i]
            i += 1
            segs = []
            for _ in range(cnt):
                if o[i] == 0:
                    segs.append(('root',))
                    i += 1
                elif o[i] == 1:
                    segs.append(('name', names.rev.get(o[i + 1], '?')))
                    i += 2
                else:
                    n = o[i + 1]
                    segs.append(('fund', tuple(impl.TT[x] for x in o[i + 2:i + 2 + n])))
                    i += 2 + n
            m = ('ok', bool(o[2]), key, segs, o[1])
        else:
            m = ('err', o[1])
        r = real_pqname(toks)
        k = "pqname:" + (m[0] if m[0] == 'ok' else 'err%d' % m[1]) + "/" + r[0]
        corr.dist[k] = corr.dist.get(k, 0) + 1
        if r[0] == 'other' or m == ('err', 4):
            continue
        if (m[0] == 'ok') != (r[0] == 'ok') or (m[0] == 'ok' and m != r):
            corr.disagreements.append(dict(case=dict(kind='corr-pqname', tokens=toks), model=str(m), impl=str(r),
                                           what="qualified name `%s`: model %s, implementation %s" % (' '.join(toks), m, r)))


# ---------------------------------------------------------------------------
# template argument lists: extracted tspec (Parse/TemplateArg.v) vs the real _parse_template_specialization

def real_tspec(strs):
    toks = [impl.mk_tok(decl.tok_type(s), s) for s in strs]
    p = impl.parser_over(toks)
    try:
        sp = p._parse_template_specialization()
    except (impl.CxxParseError, EOFError):
        return ('err',)
    except (AssertionError, IndexError):
        return ('assert',)
    except (KeyError, AttributeError, TypeError, ValueError):
        return ('other',)
    out = []
    for a in sp.args:
        if isinstance(a.arg, T.Value):
            out.append(('value', tuple(t.value for t in a.arg.tokens), a.param_pack))
        else:
            try:
                out.append(('type', decl.from_real(a.arg), a.param_pack))
            except decl.Unrepresentable:
                return ('other',)
    return ('ok', out, len(p.lex.tokbuf))


def model_tspec(cases):
    lines, nms = [], []
    for toks in cases:
        names = decl.Names()
        lines.append([101] + decl.enc_tokens(toks, names))
        nms.append(names)
    res = []
    for o, names in zip(run_driver(lines), nms):
        if o[0] != 0:
            res.append(('err', o[1]))
            continue
        rest, cnt = o[1], o[2]
        i = 3
        out = []
        for _ in range(cnt):
            if o[i] == 1:
                t, j = decl.dec_type(o, i + 2, names)
                out.append(('type', t, bool(o[i + 1])))
                i = j
            else:
                n = o[i + 2]
                vals = tuple(names.rev[o[i + 3 + 2 * j + 1]] if o[i + 3 + 2 * j + 1] else impl.TT[o[i + 3 + 2 * j]] for j in range(n))
                out.append(('value', vals, bool(o[i + 1])))
                i += 3 + 2 * n
        res.append(('ok', out, rest))
    return res


TS_VALUES = [['3'], ['N', '+', '1'], ['(', 'a', '<', 'b', ')'], ['-', '1'], ['true'], ["'c'"], ['sizeof', '(', 'Foo', ')'], ['&', 'x'], ['nullptr'],
             ['1', '<<', '2'], ['(', 'a', ',', 'b', ')'], ['Foo', '(', '3', ')'], ['Foo', '[', '2', ']', '+', '1'], ['a', '?', 'b', ':', 'c']]
TS_WORDS = ['Foo', 'Bar', 'T', 'void', 'const', 'volatile', '*', '&', '&&', '(', ')', '[', ']', ',', '>', '...', '3', 'x', 'sizeof', '<', '::', 'int',
            'static', 'typename', 'struct', '=', '->']


def tspec_msg(m, r):
    if r[0] == 'other' or m == ('err', 4):
        return None
    if m[0] == 'err' and m[1] == 9:
        return "model ran out of budget"
    if m[0] == 'err' and m[1] == 3:
        # an assertion of the implementation, or an explicit CxxParseError inside the type trial (the model's code 3 covers both)
        return None if r[0] in ('assert', 'err', 'ok') else "model code 3, implementation %s" % (r[:1],)
    if m[0] == 'err':
        return None if r[0] in ('err', 'assert') else "model rejects (code %d), implementation %s" % (m[1], r)
    if r[0] != 'ok':
        return "model %s, implementation %s" % (m, r[:1])
    if m != r:
        return "model %s, implementation %s" % (m, r)
    return None


def gen_tspec(rng):
    """(tokens after '<', expected list or None)"""
    n = rng.choice([1, 1, 2, 3, 4])
    toks, exp = [], []
    for i in range(n):
        if i:
            toks.append(',')
        r = rng.random()
        if r < 0.6:
            while True:
                t = decl.rand_type(rng, rng.choice([0, 1, 2, 3, 4]))
                if decl.legal(t) and not decl.is_void(t):
                    break
            pack = rng.random() < 0.15
            toks += decl.print_decl(t, None) + (['...'] if pack else [])
            exp.append(('type', t, pack))
        else:
            v = rng.choice(TS_VALUES)
            pack = rng.random() < 0.1
            toks += v + (['...'] if pack else [])
            exp.append(('value', tuple(v), pack))
    toks += ['>'] + rng.choice([[], ['x', ';'], ['::', 'type'], ['>']])
    return toks, exp


def correspond_tspec(ctx, corr):
    rng = ctx.rng
    cases = []
    for _ in range(ctx.scale(900, 20000)):
        toks, exp = gen_tspec(rng)
        cases.append((toks, exp, 'targs-valid'))
        if rng.random() < 0.6:
            mt = mutate(rng, toks) or ['>']
            if rng.random() < 0.3:
                mt = [rng.choice(TS_WORDS) for _ in range(rng.choice([1, 2, 3, 5, 8]))]
            cases.append((mt, None, 'targs-mutated'))
    ms = model_tspec([c[0] for c in cases])
    for (toks, exp, kind), m in zip(cases, ms):
        corr.cases += 1
        r = real_tspec(toks)
        k = kind + ":" + (m[0] if m[0] == 'ok' else 'err%d' % m[1]) + "/" + r[0]
        corr.dist[k] = corr.dist.get(k, 0) + 1
        msg = tspec_msg(m, r)
        if msg is None and exp is not None and (m[0] != 'ok' or m[1] != exp):
            msg = "model does not decode the printed argument list: %s" % (m,)
        if msg:
            corr.disagreements.append(dict(case=dict(kind='corr-tspec', tokens=toks), model=str(m)[:300], impl=str(r)[:300],
                                           what="template arguments `< %s`: %s" % (' '.join(toks), msg)))


def correspond(ctx):
    corr = Corr()
    correspond_tspec(ctx, corr)
    correspond_pqname(ctx, corr)
    correspond_alias(ctx, corr)
    cases = corr_cases(ctx)
    ms = model_var([c[1] for c in cases])
    for (kind, toks, t), m in zip(cases, ms):
        corr.cases += 1
        text = ' '.join(toks)
        r = real_var(text)
        key = kind + ":" + (m[0] if m[0] == 'ok' else 'err%d' % m[1]) + "/" + r[0]
        corr.dist[key] = corr.dist.get(key, 0) + 1
        msg = compare(kind, toks, t, m, r)
        if msg is None and kind == 'valid' and m[0] == 'ok' and m[2] != t:
            msg = "model decodes the printed %s as %s" % (decl.show(t), decl.show(m[2]))
        if msg:
            corr.disagreements.append(dict(case=dict(kind='corr', tokens=toks), model=str(m)[:300], impl=str(r)[:300], what=msg))
    corr.samples = [dict(tokens=' '.join(cases[40][1])), dict(tokens=' '.join(cases[-1][1]))]
    corr.note = ("extracted parse_var (Parse/Declarator.v) vs parse_string on the same token lists: every type tree of <=%d constructors over "
                 "small alphabets, random deeper trees printed by the independent inner-end printer, and token-level mutations of valid "
                 "declarators (delete / insert / swap); compared: decoded name and tree, or rejection" % (4 if ctx.thorough else 3))
    return corr


# ---------------------------------------------------------------------------
# search: every declaration context, rich base names, flags

RICH_BASES = ['int', 'unsigned long', 'long long', 'char', 'ns::Foo', '::Bar', 'std::vector<int>', 'std::map<Key, ns::Val*>', 'Foo',
              'typename T::type', 'void', 'unsigned', 'std::array<int, 3>', 'decltype(x)', 'struct Tag', 'signed char']


def rich_type(rng, depth):
    t = decl.rand_type(rng, depth)

    def rebase(t):
        k = t[0]
        if k == 'B':
            if t[1] == 'void':
                return t
            return ('B', rng.choice(RICH_BASES), t[2], t[3])
        if k == 'P':
            return ('P', rebase(t[1]), t[2], t[3])
        if k in 'RM':
            return (k, rebase(t[1]))
        if k == 'A':
            return ('A', rebase(t[1]), t[2])
        return ('F', rebase(t[1]), tuple((fix_param(rebase(p)), n) for p, n in t[2]), t[3])

    def fix_param(p):
        return p
    t = rebase(t)
    return t if decl.legal(t) else None


def norm(t):
    """canonical spelling of base names the way PQName.format() prints them"""
    return t


def base_format(name):
    return name


def tree_of(d):
    return decl.from_real(d, rich=True)


def canon_base(t):
    """expected tree: base spellings as the parser's PQName.format() would print them"""
    k = t[0]
    if k == 'B':
        nm = t[1]
        if nm.startswith('struct '):
            nm = nm       # classkey is printed
        return ('B', ' '.join(nm.split()), t[2], t[3])
    if k == 'P':
        return ('P', canon_base(t[1]), t[2], t[3])
    if k in 'RM':
        return (k, canon_base(t[1]))
    if k == 'A':
        return ('A', canon_base(t[1]), t[2])
    return ('F', canon_base(t[1]), tuple((canon_base(p), n) for p, n in t[2]), t[3])


def squash(s):
    return ''.join(s.split())


def trees_equal(want, got):
    """structural equality; base names compared up to whitespace"""
    if want[0] != got[0]:
        return False
    k = want[0]
    if k == 'B':
        return squash(want[1]) == squash(got[1]) and want[2:] == got[2:]
    if k == 'P':
        return want[2:] == got[2:] and trees_equal(want[1], got[1])
    if k in 'RM':
        return trees_equal(want[1], got[1])
    if k == 'A':
        return tuple(want[2]) == tuple(got[2]) and trees_equal(want[1], got[1])
    if want[3] != got[3] or len(want[2]) != len(got[2]):
        return False
    return trees_equal(want[1], got[1]) and all(a[1] == b[1] and trees_equal(a[0], b[0]) for a, b in zip(want[2], got[2]))


def text_of(toks):
    return ' '.join(toks)


def contexts(t):
    """(ctx name, source text, extractor) for every declaration context in which t can be written"""
    out = []
    k = decl.kind(t)
    if decl.var_ok(t):
        out.append(('variable', text_of(decl.print_decl(t, 'x')) + ';', lambda d: (d.namespace.variables[0].name.format(), d.namespace.variables[0].type)))
        out.append(('extern', 'namespace n { extern ' + text_of(decl.print_decl(t, 'x')) + '; }', lambda d: (d.namespace.namespaces['n'].variables[0].name.format(), d.namespace.namespaces['n'].variables[0].type)))
        out.append(('parameter', 'void f(int a0, ' + text_of(decl.print_decl(t, 'x')) + ', char z);', lambda d: (d.namespace.functions[0].parameters[1].name, d.namespace.functions[0].parameters[1].type)))
        out.append(('abstract parameter', 'void f(' + text_of(decl.print_decl(t, None)) + ');', lambda d: (d.namespace.functions[0].parameters[0].name, d.namespace.functions[0].parameters[0].type)))
        out.append(('field', 'struct S { int a; ' + text_of(decl.print_decl(t, 'x')) + '; };', lambda d: (d.namespace.classes[0].fields[1].name, d.namespace.classes[0].fields[1].type)))
        out.append(('method parameter', 'class S { void m(' + text_of(decl.print_decl(t, 'x')) + ') const; };', lambda d: (d.namespace.classes[0].methods[0].parameters[0].name, d.namespace.classes[0].methods[0].parameters[0].type)))
    if not decl.is_void(t):
        out.append(('typedef', 'typedef ' + text_of(decl.print_decl(t, 'x')) + ';', lambda d: (d.namespace.typedefs[0].name, d.namespace.typedefs[0].type)))
        out.append(('alias', 'using x = ' + text_of(decl.print_decl(t, None)) + ';', lambda d: (d.namespace.using_alias[0].alias, d.namespace.using_alias[0].type)))
        out.append(('template argument', 'Tmpl<int, ' + text_of(decl.print_decl(t, None)) + ', 3> x;',
                    lambda d: ('x', d.namespace.variables[0].type.typename.segments[0].specialization.args[1].arg)))
    if k in 'BR':   # a legal return type
        ft = ('F', t, ((('B', 'int', False, False), 'a'),), False)
        out.append(('return type', text_of(decl.print_decl(ft, 'x')) + ';', lambda d: (d.namespace.functions[0].name.format(), d.namespace.functions[0].return_type)))
        out.append(('method return type', 'struct S { virtual ' + text_of(decl.print_decl(ft, 'x')) + ' = 0; };', lambda d: (d.namespace.classes[0].methods[0].name.format(), d.namespace.classes[0].methods[0].return_type)))
    return out


def check_ctx(t, ctxname, src, get):
    try:
        d = parse_string(src)
    except (impl.CxxParseError, AssertionError) as e:
        return "%s: `%s` is rejected: %s" % (ctxname, src, str(e)[:120])
    try:
        name, ty = get(d)
    except Exception as e:
        return "%s: `%s` is not reported as the expected declaration (%s)" % (ctxname, src, type(e).__name__)
    want_name = None if ctxname == 'abstract parameter' else 'x'
    if name != want_name:
        return "%s: `%s` reports the name %r" % (ctxname, src, name)
    if isinstance(ty, T.Value):
        return "%s: `%s` is reported as a raw value, not a type" % (ctxname, src)
    try:
        got = tree_of(ty)
    except decl.Unrepresentable as e:
        return "%s: `%s` is reported with unexpected extras (%s)" % (ctxname, src, e)
    if not trees_equal(t, got):
        return "%s: `%s` is reported as `%s`" % (ctxname, src, decl.show(got))
    return None


FLAG_CASES = [
    ("void f(int a, ...);", lambda d: d.namespace.functions[0].vararg and len(d.namespace.functions[0].parameters) == 1, "vararg on the function"),
    ("void (*fp)(int, ...);", lambda d: d.namespace.variables[0].type.ptr_to.vararg and not hasattr(d.namespace.variables[0], "vararg"), "vararg on the pointed-to function type"),
    ("void g(void (*cb)(int, ...), int b);", lambda d: d.namespace.functions[0].parameters[0].type.ptr_to.vararg and not d.namespace.functions[0].vararg, "vararg on the callback, not on g"),
    ("void g(void (*cb)(int), ...);", lambda d: (not d.namespace.functions[0].parameters[0].type.ptr_to.vararg) and d.namespace.functions[0].vararg, "vararg on g, not on the callback"),
    ("template <typename... A> void f(A... a);", lambda d: d.namespace.functions[0].parameters[0].param_pack and d.namespace.functions[0].template.params[0].param_pack, "parameter pack on the parameter and on the template parameter"),
    ("template <typename... A> void f(int x, A&&... a);", lambda d: d.namespace.functions[0].parameters[1].param_pack and not d.namespace.functions[0].parameters[0].param_pack, "pack only on the second parameter"),
    ("auto f(int a) -> int*;", lambda d: d.namespace.functions[0].has_trailing_return and isinstance(d.namespace.functions[0].return_type, T.Pointer), "trailing return type on the function"),
    ("auto (*fp)(int a) -> int*;", lambda d: d.namespace.variables[0].type.ptr_to.has_trailing_return and isinstance(d.namespace.variables[0].type.ptr_to.return_type, T.Pointer), "trailing return type on the function pointer's function type"),
    ("void (__stdcall *fp)(int);", lambda d: d.namespace.variables[0].type.ptr_to.msvc_convention == "__stdcall", "calling convention on the function type"),
    ("void __cdecl f(int);", lambda d: d.namespace.functions[0].msvc_convention == "__cdecl", "calling convention on the function"),
    ("X<A...> v;", lambda d: d.namespace.variables[0].type.typename.segments[0].specialization.args[0].param_pack, "pack expansion on the template argument"),
    ("X<int, A...> v;", lambda d: d.namespace.variables[0].type.typename.segments[0].specialization.args[1].param_pack and not d.namespace.variables[0].type.typename.segments[0].specialization.args[0].param_pack, "pack expansion only on the second argument"),
]

VALUE_ARGS = ['3', 'N + 1', 'sizeof(int)', '(a)', '-1', 'true', "'c'", '(a < b)', 'f(1, 2)', '&x', 'a[3] + 1', 'nullptr']


def check_value_arg(v):
    src = 'Tmpl<%s> x;' % v
    try:
        d = parse_string(src)
        a = d.namespace.variables[0].type.typename.segments[0].specialization.args[0].arg
    except Exception as e:
        return "`%s`: %s" % (src, str(e)[:100])
    if not isinstance(a, T.Value):
        return "`%s`: a non-type argument is reported as the type `%s`" % (src, a.format())
    if squash(a.format()) != squash(v):
        return "`%s`: the raw value is reported as `%s`" % (src, a.format())
    return None


PACK_NAMES = ['Ts', 'Args', 'Us']

# every spelling of every fundamental type: the keyword multisets of [dcl.type.simple], each in every order
FUND_SETS = [('char',), ('signed', 'char'), ('unsigned', 'char'), ('short',), ('short', 'int'), ('signed', 'short'), ('signed', 'short', 'int'),
             ('unsigned', 'short'), ('unsigned', 'short', 'int'), ('int',), ('signed',), ('signed', 'int'), ('unsigned',), ('unsigned', 'int'),
             ('long',), ('long', 'int'), ('signed', 'long'), ('signed', 'long', 'int'), ('unsigned', 'long'), ('unsigned', 'long', 'int'),
             ('long', 'long'), ('long', 'long', 'int'), ('signed', 'long', 'long'), ('signed', 'long', 'long', 'int'),
             ('unsigned', 'long', 'long'), ('unsigned', 'long', 'long', 'int'), ('float',), ('double',), ('long', 'double'),
             ('bool',), ('wchar_t',), ('char16_t',), ('char32_t',)]


def fund_spellings():
    import itertools
    out = []
    for fs in FUND_SETS:
        for perm in sorted(set(itertools.permutations(fs))):
            out.append(' '.join(perm))
    return out


CV_PLACEMENTS = [('', ''), ('const', ''), ('', 'const'), ('volatile', ''), ('', 'volatile'), ('const volatile', ''), ('', 'const volatile'),
                 ('', 'volatile const'), ('const', 'volatile'), ('volatile', 'const')]
CV_HOSTS = [('variable', '%s x;', lambda d: d.namespace.variables[0].type),
            ('static variable', 'static %s x;', lambda d: d.namespace.variables[0].type),
            ('pointer variable', '%s *x;', lambda d: d.namespace.variables[0].type.ptr_to),
            ('parameter', 'void f(%s x);', lambda d: d.namespace.functions[0].parameters[0].type),
            ('typedef', 'typedef %s x;', lambda d: d.namespace.typedefs[0].type),
            ('field', 'struct S { %s x; };', lambda d: d.namespace.classes[0].fields[0].type),
            ('return type', '%s x();', lambda d: d.namespace.functions[0].return_type),
            ('template argument', 'Tmpl<%s> x;', lambda d: d.namespace.variables[0].type.typename.segments[0].specialization.args[0].arg)]


def check_spelling(host, base, before, after):
    """the base name is reported as written and const / volatile are reported wherever in the specifier sequence they are written"""
    hname, fmt, get = host
    text = ' '.join(x for x in (before, base, after) if x)
    src = fmt % text
    try:
        ty = get(parse_string(src))
    except (impl.CxxParseError, AssertionError) as e:
        return "%s: `%s` is rejected: %s" % (hname, src, str(e)[:100])
    except Exception as e:
        return "%s: `%s` is not reported as the expected declaration (%s)" % (hname, src, type(e).__name__)
    if not isinstance(ty, T.Type):
        return "%s: `%s` is reported as %s, not as a named type" % (hname, src, type(ty).__name__)
    cv = (before + ' ' + after).split()
    if squash(ty.typename.format()) != squash(base):
        return "%s: `%s` reports the type name `%s`" % (hname, src, ty.typename.format())
    if ty.const != ('const' in cv) or ty.volatile != ('volatile' in cv):
        return "%s: `%s` reports const=%s volatile=%s" % (hname, src, ty.const, ty.volatile)
    return None


def gen_arg_list(rng):
    """(source, expected): expected = list of ('type', tree, pack) | ('value', squashed text, pack)"""
    n = rng.choice([1, 2, 3, 4, 5])
    exp, texts = [], []
    for i in range(n):
        r = rng.random()
        if r < 0.3:
            nm = rng.choice(PACK_NAMES)
            t = ('B', nm, False, False)
            if rng.random() < 0.4:
                t = rng.choice([('P', t, False, False), ('R', t), ('M', t), ('P', ('B', nm, True, False), False, False)])
            exp.append(('type', t, True))
            texts.append(' '.join(decl.print_decl(t, None)) + '...')
        elif r < 0.75:
            while True:
                t = rich_type(rng, rng.choice([0, 1, 2, 3]))
                if t is not None and not decl.is_void(t) or (t is not None and rng.random() < 0.3):
                    break
            exp.append(('type', t, False))
            texts.append(' '.join(decl.print_decl(t, None)))
        else:
            v = rng.choice(VALUE_ARGS)
            exp.append(('value', squash(v), False))
            texts.append(v)
    host = rng.choice(['Tmpl<%s> x;', 'void f(std::tuple<%s> a);', 'using U = ns::Box<%s>;', 'struct S { Holder<%s> m; };', 'typedef W<%s> x;'])
    return host % ', '.join(texts), exp


def first_spec(o):
    """the first template specialization inside a parse result"""
    import dataclasses
    if isinstance(o, T.TemplateSpecialization):
        return o
    if dataclasses.is_dataclass(o):
        for f in dataclasses.fields(o):
            r = first_spec(getattr(o, f.name))
            if r is not None:
                return r
    elif isinstance(o, list):
        for x in o:
            r = first_spec(x)
            if r is not None:
                return r
    elif isinstance(o, dict):
        for x in o.values():
            r = first_spec(x)
            if r is not None:
                return r
    return None


def check_arg_list(src, exp):
    try:
        d = parse_string(src)
    except (impl.CxxParseError, AssertionError) as e:
        return "`%s` is rejected: %s" % (src, str(e)[:100])
    sp = first_spec(d)
    if sp is None or len(sp.args) != len(exp):
        return "`%s`: %s template arguments reported, %d written" % (src, "no" if sp is None else len(sp.args), len(exp))
    for i, (a, e) in enumerate(zip(sp.args, exp)):
        if a.param_pack != e[2]:
            return "`%s`: argument %d is reported with param_pack=%s" % (src, i + 1, a.param_pack)
        if e[0] == 'value':
            if not isinstance(a.arg, T.Value):
                return "`%s`: argument %d (a non-type argument) is reported as the type `%s`" % (src, i + 1, a.arg.format())
            if squash(a.arg.format()) != e[1]:
                return "`%s`: argument %d is reported as the raw value `%s`" % (src, i + 1, a.arg.format())
        else:
            if isinstance(a.arg, T.Value):
                return "`%s`: argument %d (a type-id) is reported as a raw value" % (src, i + 1)
            try:
                got = tree_of(a.arg)
            except decl.Unrepresentable as ex:
                return "`%s`: argument %d is reported with unexpected extras (%s)" % (src, i + 1, ex)
            if not trees_equal(e[1], got):
                return "`%s`: argument %d is reported as `%s`" % (src, i + 1, decl.show(got, None))
    return None


def search(ctx, boost=False):
    s = Search()
    rng = ctx.rng
    depth = 4 if (ctx.thorough or boost) else 3
    s.rule = ("every legal type tree of <=%d constructors over small alphabets (exhaustive) and random trees to depth 9 with rich base names "
              "(fundamental groups, qualified, templated, typename, decltype, class-key), each printed by the independent inner-end printer "
              "and parsed in every context where it can be written (variable, extern, named / abstract / method parameter, field, typedef, alias, "
              "template argument, return type); expected: the tree itself and the core name. Plus flag placement cases and non-type template "
              "arguments; every spelling (keyword order) of every fundamental type and some named types with const / volatile at every place of "
              "the specifier sequence, in eight hosts. non-trivial = tree with >=2 constructors or a parameter list; distinct = distinct (tree, context)" % depth)
    trees = list(decl.enum_types(depth))
    n_rand = ctx.scale(400, 8000) * (3 if boost else 1)
    for _ in range(n_rand):
        t = rich_type(rng, rng.choice([2, 4, 6, 9]))
        if t is not None:
            trees.append(t)
    for t in trees:
        for ctxname, src, get in contexts(t):
            s.evaluations += 1
            s.count(ctxname)
            if decl.depth_of(t) >= 2 or any(l[0] == 'F' for l in decl.layers(t)[1]):
                s.nontrivial.add((t, ctxname))
            msg = check_ctx(t, ctxname, src, get)
            if msg:
                s.violations.append(dict(what=msg, case=dict(kind='ctx', ctx={'alias': 'alias'}.get(ctxname, ctxname), outer=t[0], source=src, tree=repr(t))))
    # redundant grouping parentheses directly around the declared name (`int *(x);`, `char *(f(int a));`, `int (x)[3];`): the type
    # is the one denoted without them
    for t in trees:
        if rng.random() > (1.0 if (ctx.thorough or boost) else 0.25):
            continue
        cands = []
        if decl.var_ok(t):
            toks = decl.print_decl(t, 'x')
            cands.append(('variable (name in parentheses)', toks, lambda d: (d.namespace.variables[0].name.format(), d.namespace.variables[0].type), t))
            cands.append(('field (name in parentheses)', ['struct', 'S', '{'] + toks + [';', '}'], lambda d: (d.namespace.classes[0].fields[0].name, d.namespace.classes[0].fields[0].type), t))
        if decl.kind(t) in 'BR' and not decl.is_void(t):
            ft = ('F', t, ((('B', 'int', False, False), 'a'),), False)
            cands.append(('function (name in parentheses)', decl.print_decl(ft, 'x'), lambda d: (d.namespace.functions[0].name.format(), d.namespace.functions[0].return_type), t))
        for ctxname, toks, get, want in cands:
            if toks.count('x') != 1:
                continue
            i = toks.index('x')
            if i > 0 and toks[i - 1] == '(':
                continue                      # already inside a declarator group: `(*x)`; a second pair is not accepted (unsupported)
            wrapped = toks[:i] + ['(', 'x', ')'] + toks[i + 1:]
            if ctxname.startswith('function'):
                # the parentheses go around name and parameter list: `char *(x(int a))`
                j = i + 1
                depth_ = 0
                while True:
                    depth_ += toks[j] == '('
                    depth_ -= toks[j] == ')'
                    j += 1
                    if depth_ == 0:
                        break
                wrapped = toks[:i] + ['('] + toks[i:j] + [')'] + toks[j:]
            src = text_of(wrapped) + (';' if not ctxname.startswith('field') else ' ;')
            s.evaluations += 1
            s.count("redundant parentheses")
            s.nontrivial.add((want, ctxname))
            msg = check_ctx(want, ctxname, src, get)
            if msg:
                s.violations.append(dict(what=msg, case=dict(kind='ctx-src', ctx=ctxname, source=src, tree=repr(want))))
    for src, pred, what in FLAG_CASES:
        s.evaluations += 1
        s.count("flags")
        try:
            ok = pred(parse_string(src))
        except Exception as e:
            ok = False
        if not ok:
            s.violations.append(dict(what="`%s`: expected %s" % (src, what), case=dict(kind='flag', source=src)))
    # template argument lists: every argument keeps its own kind (type / raw value), its own tree and its own pack flag
    for _ in range(ctx.scale(300, 6000) * (3 if boost else 1)):
        case = gen_arg_list(rng)
        s.evaluations += 1
        s.count("argument list")
        s.nontrivial.add(case[0])
        msg = check_arg_list(*case)
        if msg:
            s.violations.append(dict(what=msg, case=dict(kind='arglist', source=case[0], expected=repr(case[1]))))
    # every spelling of every fundamental type and a few named types, with const / volatile at every place of the specifier sequence
    spell = fund_spellings() + ['Foo', 'ns::Foo', '::Bar', 'std::vector<int>', 'typename T::type']
    for bi, base in enumerate(spell):
        for hi, host in enumerate(CV_HOSTS):
            if not (ctx.thorough or boost) and (bi + hi) % 2:
                continue
            for before, after in CV_PLACEMENTS:
                s.evaluations += 1
                s.count("specifier spelling")
                if before or after or ' ' in base:
                    s.nontrivial.add(('spell', base, host[0], before, after))
                msg = check_spelling(host, base, before, after)
                if msg:
                    s.violations.append(dict(what=msg, case=dict(kind='spelling', host=host[0], base=base, before=before, after=after)))
    for v in VALUE_ARGS:
        s.evaluations += 1
        s.count("value argument")
        msg = check_value_arg(v)
        if msg:
            s.violations.append(dict(what=msg, case=dict(kind='value', value=v)))
    s.samples = [dict(source=contexts(trees[200])[0][1]), dict(source=contexts(trees[-1])[0][1] if contexts(trees[-1]) else "")]
    return s


def replay(ctx, case):
    k = case.get("kind")
    if k == 'corr-tspec':
        msg = tspec_msg(model_tspec([case["tokens"]])[0], real_tspec(case["tokens"]))
        return ["template argument list: " + msg] if msg else []
    if k == 'corr-alias':
        names = decl.Names()
        o = run_driver([[86] + decl.enc_tokens(case["tokens"], names)])[0]
        m = ('ok', 'A', decl.dec_type(o, 3, names)[0], o[2]) if o[0] == 0 else ('err', o[1])
        msg = compare('replay', case["tokens"], None, m, real_alias('using A = ' + ' '.join(case["tokens"])))
        return [msg] if msg else []
    if k == 'corr':
        toks = case["tokens"]
        m = model_var([toks])[0]
        r = real_var(' '.join(toks))
        msg = compare('replay', toks, None, m, r)
        return [msg] if msg else []
    if k == 'ctx':
        t = eval(case["tree"])
        out = []
        for ctxname, src, get in contexts(t):
            if src == case["source"]:
                msg = check_ctx(t, ctxname, src, get)
                if msg:
                    out.append(msg)
        return out
    if k == 'ctx-src':
        t = eval(case["tree"])
        getters = {'variable': lambda d: (d.namespace.variables[0].name.format(), d.namespace.variables[0].type),
                   'field': lambda d: (d.namespace.classes[0].fields[0].name, d.namespace.classes[0].fields[0].type),
                   'function': lambda d: (d.namespace.functions[0].name.format(), d.namespace.functions[0].return_type)}
        msg = check_ctx(t, case["ctx"], case["source"], getters[case["ctx"].split(' ')[0]])
        return [msg] if msg else []
    if k == 'flag':
        for src, pred, what in FLAG_CASES:
            if src == case["source"]:
                try:
                    ok = pred(parse_string(src))
                except Exception:
                    ok = False
                return [] if ok else ["`%s`: expected %s" % (src, what)]
    if k == 'arglist':
        msg = check_arg_list(case["source"], eval(case["expected"]))
        return [msg] if msg else []
    if k == 'value':
        msg = check_value_arg(case["value"])
        return [msg] if msg else []
    if k == 'spelling':
        host = [h for h in CV_HOSTS if h[0] == case["host"]][0]
        msg = check_spelling(host, case["base"], case["before"], case["after"])
        return [msg] if msg else []
    return []


LEVEL_TEXT = ("Proved in Coq for EVERY legal type tree (any nesting depth, any number of parameters, parameters themselves arbitrary legal trees) "
              "over base types `[const][volatile] NAME|void`: the inside-out printed declarator parses to exactly that tree and the core name, as "
              "a variable (declarator_decodes), as a named or abstract parameter (parameter_decodes), as a whole parameter list with the vararg "
              "flag (parameter_list_decodes), and at the level of the pointer/cv/group loop for any accumulated type (cv_ptr_or_fn_decodes); "
              "proofs by induction over the reading-order layer list with the grouping parenthesis handled through consume_balanced_exact. "
              "Tie: extracted model vs parse_string on the same token lists (exhaustive small trees, random deep trees, token mutations). "
              "PARTIAL: rich base names, the template-argument type-or-value trial, packs / trailing returns / calling conventions and the "
              "typedef / alias / field / return-type call sites are covered by the context search only.")
LEVEL_NOTE = ("Trusted: Coq kernel, extraction (ExtrOcamlBasic), driver, harness codecs, the real lexer for token types. The model is hand-written; "
              "its agreement with the code is checked differentially on every run, not proved. Fuel: the theorems hold for every sufficiently "
              "large fuel; the driver uses 4*len+8 and reports exhaustion as a disagreement.")
TECHNIQUE = "Coq proof of the declarator round trip over reading-order layers (unbounded depth) + differential run of the extracted parser model + exhaustive/random context search"


def KNOWN_WITNESS_CHECK(entry):
    """does the recorded finding still reproduce on the current tree?"""
    if entry["id"] == "F26":
        try:
            parse_string(entry["witness"])
            return False
        except impl.CxxParseError:
            return True
    return False

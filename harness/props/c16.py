"""C16 -- Formatted token values re-lex to the same tokens."""
import itertools

from harness.core import Corr, Search, run_driver
from harness import impl, reps, lexgen, blocks

PID = "C16"
TITLE = "Formatted token values re-lex to the same tokens"
THEOREM_FILE = "Props/C16.v"
MODELLED = ("tokfmt/_fuses are mirrored by hand (bodies pinned by text, tables regenerated) and composed with the lexer+stream models; the "
            "relex theorems are finite (representative alphabet x length bound); arbitrary texts and lengths are searched")
ASSUMPTIONS = ["token sequences come from the lexer (no ' or \\ single-character tokens, no discard/directive types)"]

from cxxheaderparser.tokfmt import tokfmt, Token  # noqa: E402

DISCARD = {"NEWLINE", "COMMENT_SINGLELINE", "COMMENT_MULTILINE", "WHITESPACE", "PRAGMA_DIRECTIVE", "INCLUDE_DIRECTIVE", "PP_DIRECTIVE",
           "'", "\\"}


def lex_sig(text):
    ls = impl.L.LexerTokenStream("<f>", text)
    out = []
    while True:
        t = ls.token_eof_ok()
        if t is None:
            return out
        out.append((t.type, t.value))


def rand_tokens(rng, n):
    """token list as the lexer produces it: lex a generated text"""
    for _ in range(20):
        text = " ".join(lexgen.gen_token(rng) for _ in range(n))
        try:
            toks = [t for t in lex_sig(text) if t[0] not in DISCARD]
        except impl.L.LexError:
            continue
        if toks:
            return toks
    return [("NAME", "x")]


def correspond(ctx):
    corr = Corr()
    n = ctx.scale(3000, 60000)
    cases = [rand_tokens(ctx.rng, ctx.rng.choice([1, 2, 3, 6, 15])) for _ in range(n)]
    lines = []
    for toks in cases:
        l = [40, len(toks)]
        for ty, v in toks:
            l += [impl.CODE[ty], len(v)] + [ord(c) for c in v]
        lines.append(l)
    outs = run_driver(lines)
    for toks, mo in zip(cases, outs):
        io = [ord(c) for c in tokfmt([Token(v, ty) for ty, v in toks])]
        corr.cases += 1
        k = "len=%d" % min(len(toks), 8)
        corr.dist[k] = corr.dist.get(k, 0) + 1
        if io != mo:
            corr.disagreements.append(dict(case=dict(tokens=toks), model="".join(chr(c) for c in mo), impl="".join(chr(c) for c in io)))
    corr.samples = [dict(tokens=cases[i]) for i in range(min(2, len(cases)))]
    corr.note = "tokfmt of the real module vs Fmt/TokFmt.v (extracted) on token lists obtained by lexing generated texts"
    return corr


def check_seq(toks):
    s = tokfmt([Token(v, ty) for ty, v in toks])
    try:
        got = lex_sig(s)
    except impl.L.LexError as e:
        return "tokfmt output %r does not lex: %s" % (s, e)
    if [v for _, v in got] != [v for _, v in toks]:
        return "tokfmt output %r lexes to %r instead of %r" % (s, [v for _, v in got], [v for _, v in toks])
    return None


def values_of(data):
    """every Value/DecltypeSpecifier token list in a ParsedData (generic walk over dataclasses)"""
    import dataclasses
    out = []
    seen = set()

    def walk(o):
        if id(o) in seen:
            return
        seen.add(id(o))
        if dataclasses.is_dataclass(o):
            if type(o).__name__ in ("Value", "DecltypeSpecifier"):
                out.append([(t.type, t.value) for t in o.tokens])
            for f in dataclasses.fields(o):
                walk(getattr(o, f.name))
        elif isinstance(o, (list, tuple)):
            for x in o:
                walk(x)
        elif isinstance(o, dict):
            for x in o.values():
                walk(x)
    walk(data)
    return out


def search(ctx, boost=False):
    s = Search()
    cls = reps.typed(reps.CLASS_REPS)
    allr = reps.typed(reps.ALL)
    s.rule = ("all sequences up to length 3 over one representative per token class (%d classes: exhaustive), all ordered pairs of the %d "
              "representatives, random longer sequences obtained by lexing generated texts, every Value found in corpus and generated "
              "programs; oracle: lex(tokfmt(tokens)) has the same token texts; non-trivial = >=2 tokens; distinct = distinct sequence" % (len(cls), len(allr)))
    rng = ctx.rng
    seqs = [[a] for a in allr]
    seqs += [[a, b] for a in allr for b in allr] if (ctx.thorough or boost) else [[a, b] for a in cls for b in cls] + [[rng.choice(allr), rng.choice(allr)] for _ in range(4000)]
    # word-like and numeric texts are where fusions live: all triples of those (with '.', '-', '+') as well
    coll = reps.typed(reps.NAMES + reps.INTS + reps.FLOATS + [".", "...", "-", "+", "::", "->"])
    if ctx.thorough or boost:
        seqs += [list(t) for t in itertools.product(cls, repeat=3)]
        seqs += [list(t) for t in itertools.product(coll, repeat=3)]
        s.exhaustive = True
    else:
        seqs += [[rng.choice(cls) for _ in range(3)] for _ in range(6000)]
        seqs += [[rng.choice(coll) for _ in range(3)] for _ in range(12000)]
    for _ in range(ctx.scale(3000, 60000)):
        seqs.append(rand_tokens(rng, rng.choice([2, 4, 8, 20])))
    for src in impl.corpus():
        try:
            seqs += values_of(impl.parse_string(src))
        except Exception:
            pass
    for _ in range(ctx.scale(50, 1000)):
        g = blocks.gen_program(rng, 10)
        try:
            seqs += values_of(impl.parse_string(g.source()))
        except Exception:
            pass
    for toks in seqs:
        if not toks or any(t[0] in DISCARD or t[0] == "PLACEHOLDER" for t in toks):
            continue
        s.evaluations += 1
        if len(toks) >= 2:
            s.nontrivial.add(tuple(toks))
        s.count("len=%d" % min(len(toks), 6))
        msg = check_seq(toks)
        if msg:
            s.violations.append(dict(what=msg, case=dict(kind="seq", tokens=toks)))
    s.samples = [dict(tokens=list(t)) for t in list(s.nontrivial)[:3]]
    return s


def replay(ctx, case):
    if case.get("kind") != "seq":
        return []
    m = check_seq([tuple(t) for t in case["tokens"]])
    return [m] if m else []


LEVEL_TEXT = ("Proved in Coq (finite domains stated in the theorems, decided by vm_compute over the regenerated lexer rules, stream sets, spacing "
              "table and fuse pairs): every ordered pair of the ~200 representative tokens (all keywords and punctuators, several texts per "
              "name/number/character/string/UDL class incl. the collision-prone ones) and every sequence of length 3 over one representative "
              "per class re-lexes to itself after tokfmt (relex_pairs_partial, relex_triples_partial); for sequences of any length tokfmt emits "
              "the values in order, each preceded by nothing or one blank (tokfmt_structure). Tie: tokfmt model vs real tokfmt on lexed random "
              "token lists. Partial: arbitrary texts and lengths beyond 3 are decided by the search (random long sequences, every Value of "
              "corpus and generated programs).")
LEVEL_NOTE = ("Trusted: Coq kernel, translator (tables, text pin of tokfmt/_fuses, representative table typed by the live lexer), extraction, "
              "driver, harness. The unbounded relex lifting (symbolic-tail argument) is not proved.")
TECHNIQUE = "Coq finite-domain proofs by vm_compute over regenerated tables (pairs of representatives, triples of class representatives) + structure lemma + differential run + sequence search"

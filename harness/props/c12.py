"""C12 -- Sibling declarations are independent and scopes compose."""
import copy
import dataclasses

from harness.core import Corr, Search, run_driver
from harness import impl, blocks
from harness.props import c04

from cxxheaderparser import simple as S, types as T
from cxxheaderparser.simple import parse_string

PID = "C12"
TITLE = "Sibling declarations are independent and scopes compose"
THEOREM_FILE = "Props/C12.v"
MODELLED = ("SimpleCxxVisitor is modelled as a fold over the forest of blocks (Parse/Fold.v), validated by folding recorded real callback "
            "streams; that the parser carries no state from one declaration to the next (specifiers, template headers, doc comments, "
            "access) lies in the parser bulk: decided by the pair search")
ASSUMPTIONS = ["the two sequences are complete and brace-balanced", "joined with a blank line (doc-comment adjacency is C11's subject)"]

KIND_FIELD = c04.FIELD_OF
KIND_CODE = {k: i + 1 for i, k in enumerate(sorted(KIND_FIELD))}


def forest_of(rec):
    """recorded callbacks -> nested forest [(tag, ...)], payload id = callback index"""
    root = []
    stack = [root]
    for idx, (name, state, payload) in enumerate(rec.raw):
        if name == "on_parse_start":
            continue
        if name == "on_namespace_start":
            b = []
            stack[-1].append(("ns", list(state.namespace.names), b))
            stack.append(b)
        elif name == "on_extern_block_start":
            b = []
            stack[-1].append(("extern", b))
            stack.append(b)
        elif name == "on_class_start":
            b = []
            stack[-1].append(("class", idx, b))
            stack.append(b)
        elif name in blocks.END:
            stack.pop()
        elif name in KIND_FIELD:
            stack[-1].append(("item", KIND_CODE[name], idx))
    return root


class Names:
    def __init__(self):
        self.m = {"": 0}

    def __call__(self, s):
        if s not in self.m:
            self.m[s] = len(self.m)
        return self.m[s]


def enc_forest(f, names):
    out = []
    for e in f:
        if e[0] == "item":
            out += [1, e[1], e[2]]
        elif e[0] == "ns":
            out += [2, len(e[1])] + [names(n) for n in e[1]] + [len(e[2])] + enc_forest(e[2], names)
        elif e[0] == "extern":
            out += [3, len(e[1])] + enc_forest(e[1], names)
        else:
            out += [4, e[1], len(e[2])] + enc_forest(e[2], names)
    return out


def dec_ns(nums, i=0):
    n = nums[i]; i += 1
    items = []
    for _ in range(n):
        items.append((nums[i], nums[i + 1])); i += 2
    nc = nums[i]; i += 1
    classes = []
    for _ in range(nc):
        c, i = dec_cs(nums, i)
        classes.append(c)
    nch = nums[i]; i += 1
    children = []
    for _ in range(nch):
        name = nums[i]; i += 1
        s, i = dec_ns(nums, i)
        children.append((name, s))
    return (items, classes, children), i


def dec_cs(nums, i):
    d = nums[i]; i += 1
    n = nums[i]; i += 1
    items = []
    for _ in range(n):
        items.append((nums[i], nums[i + 1])); i += 2
    nc = nums[i]; i += 1
    classes = []
    for _ in range(nc):
        c, i = dec_cs(nums, i)
        classes.append(c)
    return (d, items, classes), i


def real_tree(data, rec, names):
    """the same shape from what the real visitor built (objects identified by the callback that delivered them)"""
    ids = {}
    for idx, (name, state, payload) in enumerate(rec.raw):
        if payload is not None and name in KIND_FIELD:
            ids[id(payload)] = idx
        if name == "on_class_start":
            ids[id(state.class_decl)] = idx

    def items_of(scope):
        out = []
        for cb, fld in KIND_FIELD.items():
            for o in getattr(scope, fld, []):
                out.append((KIND_CODE[cb], ids.get(id(o), -1)))
        return out

    def cs(c):
        return (ids.get(id(c.class_decl), -1), items_of(c), [cs(x) for x in c.classes])

    def ns(n):
        return (items_of(n), [cs(x) for x in n.classes], [(names(k), ns(v)) for k, v in n.namespaces.items()])
    return ns(data.namespace)


def by_kind(items):
    d = {}
    for k, p in items:
        d.setdefault(k, []).append(p)
    return d


def same_tree(m, r):
    mi, mc, mch = m
    ri, rc, rch = r
    if by_kind(mi) != by_kind(ri):
        return False
    if len(mc) != len(rc) or len(mch) != len(rch):
        return False
    for a, b in zip(mc, rc):
        if not same_cs(a, b):
            return False
    for (n1, a), (n2, b) in zip(mch, rch):
        if n1 != n2 or not same_tree(a, b):
            return False
    return True


def same_cs(a, b):
    return a[0] == b[0] and by_kind(a[1]) == by_kind(b[1]) and len(a[2]) == len(b[2]) and all(same_cs(x, y) for x, y in zip(a[2], b[2]))


def real_ns_header(inline, toks):
    """('def', names) | ('alias', alias, names) | ('err',) for `[inline] namespace <toks>`; definitions are closed with '}'"""
    text = ("inline " if inline else "") + "namespace " + " ".join(toks)
    if "{" in toks:
        text += " }"
    try:
        d = parse_string(text)
    except (impl.CxxParseError, AssertionError, RecursionError):
        return ('err',)
    ns = d.namespace
    if ns.ns_alias:
        if len(ns.ns_alias) != 1 or ns.namespaces:
            return ('other',)
        return ('alias', ns.ns_alias[0].alias, list(ns.ns_alias[0].names))
    names = []
    cur = ns
    while cur.namespaces:
        if len(cur.namespaces) != 1:
            return ('other',)
        (k, cur), = cur.namespaces.items()
        names.append(k)
    if ns.variables or ns.functions or ns.classes:
        return ('other',)
    if not names:
        return ('other',)
    return ('def', [] if names == [''] else names)


def corr_ns_headers(ctx, corr):
    from harness import decl
    from harness.props import c02
    rng = ctx.rng
    cases = []
    for _ in range(ctx.scale(500, 10000)):
        inline = rng.random() < 0.2
        names = ['n%d' % i for i in range(rng.choice([0, 1, 1, 2, 3, 4]))]
        if rng.random() < 0.3 and names:
            rooted = rng.random() < 0.4
            toks = ['al', '='] + (['::'] if rooted else []) + '::'.split('|')[0:0]
            path = []
            for i, n in enumerate(names):
                if i:
                    path.append('::')
                path.append(n)
            toks = ['al', '='] + (['::'] if rooted else []) + path + [';']
        else:
            path = []
            for i, n in enumerate(names):
                if i:
                    path.append('::')
                path.append(n)
            toks = path + ['{']
        cases.append((inline, toks, 'ns-valid'))
        if rng.random() < 0.5 and len(toks) > 1:
            mt = [t for t in c02.mutate(rng, toks[:-1]) if t in ('::', '=', ';', '{') or t[0].isalpha()]
            mt = [t for t in mt if t not in ('const', 'volatile', 'void')]
            cases.append((inline, mt + [toks[-1]], 'ns-mutated'))
    lines, nms = [], []
    for inline, toks, _ in cases:
        names = decl.Names()
        lines.append([87, int(inline)] + decl.enc_tokens(toks, names))
        nms.append(names)
    outs = run_driver(lines)
    for (inline, toks, kind), o, names in zip(cases, outs, nms):
        corr.cases += 1
        if o[0] == 0:
            lst = [('::' if x == 0 else names.rev.get(x, '?')) for x in o[5:5 + o[4]]]
            m = ('def', lst, o[1]) if o[2] == 0 else ('alias', names.rev.get(o[3], '?'), lst, o[1])
        else:
            m = ('err', o[1])
        r = real_ns_header(inline, toks)
        corr.dist[kind + ":" + m[0] + "/" + r[0]] = corr.dist.get(kind + ":" + m[0] + "/" + r[0], 0) + 1
        msg = None
        if m[0] in ('def', 'alias') and m[-1] == 0:
            if r[0] == 'other':
                pass
            elif r[0] == 'err':
                msg = "model decodes the header but the implementation rejects it"
            elif tuple(m[:-1]) != tuple(r):
                msg = "model %s; implementation %s" % (m[:-1], r)
        elif m[0] == 'err' and m[1] in (1, 2, 3) and r[0] in ('def', 'alias'):
            msg = "model rejects (code %d) but the implementation reports %s" % (m[1], r)
        if msg:
            corr.disagreements.append(dict(case=dict(kind='corr-ns', inline=inline, tokens=toks), model=str(m)[:200], impl=str(r)[:200],
                                           what="namespace header `%s`: %s" % (' '.join(toks), msg)))


def correspond(ctx):
    corr = Corr()
    rng = ctx.rng
    from harness import bodies, classdef
    bodies.corr_ns_bodies(ctx, corr)
    classdef.corr_class_defs(ctx, corr)
    classdef.corr_corpus_units(ctx, corr)          # whole units: namespaces, linkage blocks, classes, statements (Parse/ClassDef.v)
    srcs = list(impl.corpus())
    for _ in range(ctx.scale(300, 6000)):
        srcs.append(blocks.gen_program(rng, rng.choice([4, 10, 25, 50])).source())
    lines, keep = [], []
    for s in srcs:
        rec = blocks.Recorder()
        tee = c04.Tee(rec)
        try:
            impl.P.CxxParser("<str>", s, tee).parse()
        except Exception:
            continue
        names = Names()
        f = forest_of(rec)
        lines.append([70, len(f)] + enc_forest(f, names))
        keep.append((s, tee.simple.data, rec, names))
    outs = run_driver(lines)
    for (s, data, rec, names), mo in zip(keep, outs):
        corr.cases += 1
        m, _ = dec_ns(mo)
        r = real_tree(data, rec, names)
        if not same_tree(m, r):
            corr.disagreements.append(dict(case=dict(source=s), model=str(m)[:300], impl=str(r)[:300]))
    corr_ns_headers(ctx, corr)
    corr.samples = [dict(source=keep[-1][0][:300])]
    corr.note = "whole translation units (namespaces, linkage blocks, nested class definitions, declaration statements; valid and mutated): extracted Parse/ClassDef.v body vs parse_string with a tree-recording visitor | namespace headers: extracted Parse/NsHeader.v vs the namespace chain / alias the implementation reports, on valid and mutated headers | the recorded callback stream of real parses, folded by Parse/Fold.v (extracted), vs the scope tree SimpleCxxVisitor built (objects identified by the delivering callback)"
    return corr


# ---------------------------------------------------------------------------
# search: parse(A + B) == merge(parse(A), parse(B))
# ---------------------------------------------------------------------------

def count_anon(o):
    n = 0
    seen = set()

    def walk(x):
        nonlocal n
        if id(x) in seen:
            return
        seen.add(id(x))
        if isinstance(x, T.AnonymousName):
            n = max(n, x.id)
        if dataclasses.is_dataclass(x):
            for f in dataclasses.fields(x):
                walk(getattr(x, f.name))
        elif isinstance(x, (list, tuple)):
            for y in x:
                walk(y)
        elif isinstance(x, dict):
            for y in x.values():
                walk(y)
    walk(o)
    return n


def shift_anon(o, k):
    seen = set()

    def walk(x):
        if id(x) in seen:
            return
        seen.add(id(x))
        if isinstance(x, T.AnonymousName):
            x.id += k
        if dataclasses.is_dataclass(x):
            for f in dataclasses.fields(x):
                walk(getattr(x, f.name))
        elif isinstance(x, (list, tuple)):
            for y in x:
                walk(y)
        elif isinstance(x, dict):
            for y in x.values():
                walk(y)
    walk(o)
    return o


def merge_ns(a, b):
    """independent statement of the scope-wise concatenation on the real data structures"""
    for f in dataclasses.fields(S.NamespaceScope):
        va, vb = getattr(a, f.name), getattr(b, f.name)
        if f.name == "namespaces":
            for k, sub in vb.items():
                if k in va:
                    merge_ns(va[k], sub)
                else:
                    va[k] = sub
        elif isinstance(va, list):
            va.extend(vb)
    return a


def copy_reopened_flags(merged, actual, b):
    """inline/doxygen of a namespace are (re)set by every block whose INNERMOST name it is (as coded); whether b's node was an
    innermost one cannot be seen from b's result, so for namespaces present in both halves these two flags are taken from the
    actual result (everything else is compared)"""
    for k, sub in b.namespaces.items():
        if k in merged.namespaces and k in actual.namespaces:
            merged.namespaces[k].inline = actual.namespaces[k].inline
            merged.namespaces[k].doxygen = actual.namespaces[k].doxygen
            copy_reopened_flags(merged.namespaces[k], actual.namespaces[k], sub)


def merge_data(da, db, actual=None):
    da = copy.deepcopy(da)
    db = shift_anon(copy.deepcopy(db), count_anon(da))
    a_before = copy.deepcopy(da.namespace)
    b_before = copy.deepcopy(db.namespace)
    merge_ns(da.namespace, db.namespace)
    if actual is not None:
        copy_reopened_flags_both(da.namespace, actual.namespace, a_before, b_before)
    da.pragmas += db.pragmas
    da.includes += db.includes
    return da


def copy_reopened_flags_both(merged, actual, a, b):
    """only namespaces that BOTH halves opened"""
    for k in b.namespaces:
        if k in a.namespaces and k in merged.namespaces and k in actual.namespaces:
            merged.namespaces[k].inline = actual.namespaces[k].inline
            merged.namespaces[k].doxygen = actual.namespaces[k].doxygen
            copy_reopened_flags_both(merged.namespaces[k], actual.namespaces[k], a.namespaces[k], b.namespaces[k])


WRAPS = [("top", "@A@\n\n@B@\n"), ("ns", "namespace w {\n@A@\n\n@B@\n}\n"), ("nested", "namespace w1 { namespace w2 {\n@A@\n\n@B@\n} }\n"),
         ("extern", "extern \"C\" {\n@A@\n\n@B@\n}\n")]


def check_pair(a, b, wrap):
    name, tmpl = wrap
    try:
        da = parse_string(tmpl.replace("@A@", a).replace("@B@", ""))
        db = parse_string(tmpl.replace("@A@", "").replace("@B@", b))
    except Exception:
        return None, False
    try:
        dab = parse_string(tmpl.replace("@A@", a).replace("@B@", b))
    except Exception as e:
        return "concatenation of two sequences that parse alone fails (%s context): %s" % (name, str(e)[:120]), True
    if dab != merge_data(da, db, dab):
        return "parse(A + B) is not the scope-wise concatenation of parse(A) and parse(B) (%s context)" % name, True
    return None, True


def class_members(rng, n):
    g = blocks.Gen(rng, n)
    g.body("class", 1)
    return "\n".join(g.lines)


def usable(src):
    return "#line" not in src and "#pragma" not in src and "#include" not in src and "\\\n" not in src


def search(ctx, boost=False):
    s = Search()
    s.rule = ("pairs (A, B) of complete declaration sequences (test corpus x corpus, generated x generated, mixed), joined with a blank line at "
              "namespace scope, inside namespace / nested namespace / extern blocks, and as class member sequences inside a class body: "
              "parse(A+B) must equal the independent scope-wise merge of parse(A) and parse(B) with anonymous ids shifted; the second sequence (with its doc comment) starting on the line on which the first one's last block closes; plus re-opened and "
              "a::b namespaces; non-trivial = both halves non-empty; distinct = distinct (A, B, context)")
    rng = ctx.rng
    corpus = [c for c in impl.corpus() if usable(c)]
    gen = [blocks.gen_program(rng, rng.choice([3, 8, 16])).source() for _ in range(ctx.scale(80, 1500))]
    # documented programs (doc comments above / behind declarations introduced by specifiers, linkage, decorations):
    # nothing of the first half's documentation may reach the second half
    from harness.props import c11
    for _ in range(ctx.scale(60, 1200)):
        g = c11.DocGen(rng)
        g.toplevel(rng.choice([1, 2, 4]))
        src = g.source().replace("\r\n", "\n")
        if usable(src):
            gen.append(src)
    n = ctx.scale(600, 20000) * (3 if boost else 1)
    for i in range(n):
        r = rng.random()
        a = rng.choice(corpus if r < 0.5 else gen)
        b = rng.choice(corpus if rng.random() < 0.5 else gen)
        wrap = WRAPS[i % len(WRAPS)]
        if wrap[0] == "extern" and ("extern" in a or "extern" in b):
            wrap = WRAPS[0]
        s.evaluations += 1
        msg, ok = check_pair(a, b, wrap)
        if ok:
            s.nontrivial.add((a, b, wrap[0]))
        s.count(wrap[0])
        if msg:
            s.violations.append(dict(what=msg, case=dict(kind="pair", a=a, b=b, wrap=list(wrap))))
    # targeted: the last declaration of A carries documentation and is introduced by a specifier, a linkage specification,
    # a decoration or a template header: nothing of it may reach the first declaration of B
    LAST = ["std::integral auto q%d = 5;", "Con<int> auto q%d = f();", "template <typename T> requires C<T> void q%d(T);", "auto q%d() -> int;",
            "void q%d(auto x);", "operator int();", "template <> struct q%d<int>;", "friend_like q%d;", "void (*q%d)(int);", "int q%d : 3;",
            "extern int q%d;", "static int q%d;", 'extern "C" void q%d();', 'extern "C" int q%d;', "inline int q%d = 0;", "[[nodiscard]] int q%d();",
            "alignas(8) int q%d;", "__declspec(dllexport) void q%d();", "template <typename T> void q%d(T);", "typedef int q%d;",
            "using q%d = int;", "enum q%d { qa%d };", "struct q%d;", "namespace q%d { }", 'extern "C" { int q%d; }', "constexpr int q%d = 1;"]
    FIRST = ["int b%d(int v);", "int b%d;", "void b%d();", "struct b%d { int m; };", "enum b%d { ba%d };", "using b%d = int;", "namespace b%d { int in; }",
             "template <typename T> struct b%d;", "/// own doc\nint b%d;"]
    k = 0
    for la in LAST:
        for doc in ("/// doc of q", "/** doc of q */", "//! doc of q"):
            for fi in (FIRST if ctx.thorough else rng.sample(FIRST, 3)):
                k += 1
                a = doc + "\n" + la.replace("%d", str(k))
                b = fi.replace("%d", str(k))
                s.evaluations += 1
                s.count("documented boundary")
                msg, ok = check_pair(a, b, WRAPS[k % 3])
                if ok:
                    s.nontrivial.add((a, b, "boundary"))
                if msg:
                    s.violations.append(dict(what=msg, case=dict(kind="pair", a=a, b=b, wrap=list(WRAPS[k % 3]))))
    # targeted: the second sequence starts on the line on which the first one's last block closes; its doc comment is its own
    ENDS = ["namespace q%d { }", "namespace q%d { int in%d; }", 'extern "C" { int q%d; }', "enum q%d { qa%d };", "struct q%d { int m; };",
            "void q%d() { }", "namespace q%d { namespace r { } }", "inline namespace q%d { }", "namespace p::q%d { }"]
    DOCFIRST = ["/** doc of b */ int b%d;", "/*! doc of b */ void b%d();", "/** doc of b */ struct b%d { int m; };", "/** doc of b */ namespace b%d { }",
                "int b%d; ///< doc of b", "/** doc of b */ enum b%d { ba%d };"]
    for la in ENDS:
        for fi in DOCFIRST:
            k += 1
            a, b = la.replace("%d", str(k)), fi.replace("%d", str(k))
            for wrap in (("same line", "@A@ @B@\n"), ("same line in ns", "namespace w { @A@ @B@\n}\n")):
                s.evaluations += 1
                s.count("same-line boundary")
                msg, ok = check_pair(a, b, wrap)
                if ok:
                    s.nontrivial.add((a, b, wrap[0]))
                if msg:
                    s.violations.append(dict(what=msg, case=dict(kind="pair", a=a, b=b, wrap=list(wrap))))
    # targeted: the two halves spell the SAME type / placeholder / name, decorated differently (east const, volatile, pointer,
    # reference, array, default value): nothing of a decoration in one statement may show up on the other statement's objects
    # (objects shared between statements -- cached types, interned names -- would leak exactly here)
    BASES = ["auto", "Foo", "int", "ns::T", "std::vector<int>", "decltype(auto)", "unsigned long", "typename T::type", "struct S"]
    DECOS = ["@ const", "@ volatile", "@ const*", "@ const&", "const @", "@*", "@&&", "@ const volatile* const", "@"]
    FORMS = ["void q%d(@ x);", "void q%d(@ x, @ y);", "void q%d(@);", "template <typename U> void q%d(U u, @ v);", "extern @ q%d;",
             "auto q%d(int i) -> @;", "typedef @ q%d;", "using q%d = @;", "void q%d(@ x = {});", "struct q%d { @ m; void f(@ p); };",
             "@ q%d(@ a);"]
    for i in range(ctx.scale(260, 5000)):
        base = rng.choice(BASES)
        da, db = rng.choice(DECOS), rng.choice(DECOS)
        fa, fb = rng.choice(FORMS), rng.choice(FORMS)
        a = fa.replace("@", da.replace("@", base)).replace("%d", "a%d" % i)
        b = fb.replace("@", db.replace("@", base)).replace("%d", "b%d" % i)
        wrap = WRAPS[i % 3]
        s.evaluations += 1
        s.count("same spelling")
        msg, ok = check_pair(a, b, wrap)
        if ok:
            s.nontrivial.add((a, b, "same spelling"))
        if msg:
            s.violations.append(dict(what=msg, case=dict(kind="pair", a=a, b=b, wrap=list(wrap))))
    # targeted: re-opened namespaces through plain, nested and a::b forms
    heads = ["namespace p {", "namespace p { namespace q {", "namespace p::q {", "namespace p::q::r {", "namespace q {", "namespace {",
             "inline namespace p {", "namespace p { namespace q { namespace r {"]
    for i in range(ctx.scale(200, 5000)):
        ha, hb = rng.choice(heads), rng.choice(heads)
        a = ha + "\nint a%d;\n" % i + "}" * ha.count("{")
        b = hb + "\nint b%d;\nstruct S%d {};\n" % (i, i) + "}" * hb.count("{")
        if rng.random() < 0.5:
            a = a + "\n" + rng.choice(gen)
        wrap = WRAPS[i % 3]
        s.evaluations += 1
        s.count("reopen")
        msg, ok = check_pair(a, b, wrap)
        if ok:
            s.nontrivial.add((a, b, wrap[0]))
        if msg:
            s.violations.append(dict(what=msg, case=dict(kind="pair", a=a, b=b, wrap=list(wrap))))
    # extern "C" blocks are transparent wherever they stand: namespace n { extern "C" { D } } == namespace n { D }
    frames = [("%s", "root"), ("namespace n {\n%s\n}\n", "ns"), ("namespace a::b {\nint pre;\n%s\nint post;\n}\n", "nested"),
              ("namespace n { namespace m {\n%s\n} }\nnamespace n {\nint later;\n}\n", "reopened")]
    for i in range(ctx.scale(200, 5000)):
        d = rng.choice(gen if rng.random() < 0.7 else corpus)
        if "extern" in d or "#" in d:
            continue
        frame, fname = frames[i % len(frames)]
        s.evaluations += 1
        s.count("extern-transparent")
        try:
            plain = parse_string(frame % d)
        except Exception:
            continue
        s.nontrivial.add((d, "extern", fname))
        for linkage in ('extern "C" {\n%s\n}', 'extern "C++" {\nextern "C" {\n%s\n}\n}'):
            try:
                wrapped = parse_string(frame % (linkage % d))
            except Exception as e:
                s.violations.append(dict(what="wrapping the declarations in a linkage block makes the input fail: %s" % str(e)[:100],
                                         case=dict(kind="extern", frame=frame, decls=d, linkage=linkage)))
                break
            if wrapped != plain:
                s.violations.append(dict(what="declarations inside a linkage block (%s context) are not reported where the same declarations "
                                              "without the block are" % fname, case=dict(kind="extern", frame=frame, decls=d, linkage=linkage)))
                break
    # class bodies
    for i in range(ctx.scale(150, 4000)):
        a, b = class_members(rng, rng.choice([2, 5, 10])), class_members(rng, rng.choice([2, 5, 10]))
        key = rng.choice(["struct", "class", "union"])
        wrap = ("class", key + " W {\npublic:\n@A@\n\npublic:\n@B@\n};\n")
        s.evaluations += 1
        s.count("class")
        msg = check_class_pair(a, b, wrap)
        s.nontrivial.add((a, b, "class"))
        if msg:
            s.violations.append(dict(what=msg, case=dict(kind="classpair", a=a, b=b, wrap=list(wrap))))
    # class bodies, member directly behind member (no blank line, no access specifier in between): what ends the first
    # member x how the second one starts (documented, specified, templated)
    MLAST = ["int a;", "int a = 1, b{2};", "void m();", "void m() { int q; }", "int m() const { return 0; }", "virtual void m() = 0;",
            "W() : a(1) {}", "~W() {}", "operator bool() const { return true; }", "explicit operator int() const;",
            "bool operator==(const W& o) const { return true; }", "auto m() const -> int { return 1; }", "auto m() -> int;",
            "struct In { int z; };", "struct { int z; } an;", "enum E { P, Q };", "using T = int;", "typedef int TT;",
            "friend void ff() {}", "friend class Fr;", "static_assert(sizeof(int) == 4, \"x\");", "template <typename U> void tm(U) {}",
            "static constexpr int k = 3;", "int bf : 3;", "using Base::operator=;"]
    MFIRST = ["/// doc of count\nint count;", "/** doc */\nvoid after();", "//! d\nstatic int s;", "/// e\nenum E2 { R };", "/// n\nstruct N2 { int y; };",
             "int plain;", "/// u\nusing U2 = long;", "template <typename V>\n/// late\nvoid tv(V);", "/// c\noperator long() const;", "/*! f */ int f2 : 2;",
             "/// m\nmutable int mu;", "/// v\nvirtual void vv() const;"]
    for i in range(ctx.scale(300, 6000)):
        a, b = rng.choice(MLAST), rng.choice(MFIRST)
        key = rng.choice(["struct", "class"])
        wrap = ("class-adjacent", key + " W {\npublic:\n@A@\n@B@\n};\n")
        s.evaluations += 1
        s.count("class-adjacent")
        msg = check_class_pair(a, b, wrap)
        s.nontrivial.add((a, b, "class-adjacent"))
        if msg:
            s.violations.append(dict(what=msg + " (members written directly one behind the other)", case=dict(kind="classpair", a=a, b=b, wrap=list(wrap))))
    s.samples = [dict(a=gen[0], b=gen[1], context="ns")]
    return s


def check_class_pair(a, b, wrap):
    name, tmpl = wrap
    try:
        da = parse_string(tmpl.replace("@A@", a).replace("@B@", ""))
        db = parse_string(tmpl.replace("@A@", "").replace("@B@", b))
        dab = parse_string(tmpl.replace("@A@", a).replace("@B@", b))
    except Exception as e:
        return None
    ca, cb, cab = da.namespace.classes[0], db.namespace.classes[0], dab.namespace.classes[0]
    ca = copy.deepcopy(ca)
    cb = shift_anon(copy.deepcopy(cb), count_anon(ca))
    for f in dataclasses.fields(S.ClassScope):
        v = getattr(ca, f.name)
        if isinstance(v, list):
            v.extend(getattr(cb, f.name))
    if cab != ca:
        return "class body A+B is not the member-wise concatenation of the bodies A and B"
    return None


def replay_extern(case):
    try:
        plain = parse_string(case["frame"] % case["decls"])
        wrapped = parse_string(case["frame"] % (case["linkage"] % case["decls"]))
    except Exception as e:
        return ["raised: %s" % str(e)[:100]]
    return [] if plain == wrapped else ["declarations inside a linkage block are reported elsewhere than without the block"]


def replay(ctx, case):
    if case.get("kind") == "extern":
        return replay_extern(case)
    if case.get("kind") == "pair":
        m, _ = check_pair(case["a"], case["b"], tuple(case["wrap"]))
    elif case.get("kind") == "classpair":
        m = check_class_pair(case["a"], case["b"], tuple(case["wrap"]))
    else:
        m = None
    return [m] if m else []


LEVEL_TEXT = ("Proved in Coq for all block forests (any nesting): the simple visitor's result for a concatenation is the scope-wise merge of the "
              "two results - items and classes appended scope by scope, namespaces merged by name in order of first appearance "
              "(fold_compositional, by a commutation lemma over duplicate-free child maps) - and nothing but the result so far is carried over "
              "(fold_continues); re-opening a namespace appends to the same scope (namespace_reopen); namespace a::b { } equals the nested "
              "blocks (nested_ns_equiv); extern blocks are transparent (extern_transparent). Tie: recorded real callback streams folded by the "
              "extracted model vs the tree the real visitor built. On the parser side, for the modelled statement kinds: a translation unit "
              "written as any tree of namespaces, linkage blocks, class definitions, forward declarations, using statements, enum "
              "definitions and declaration statements reads back as written, and the unit A B reads as the items of A followed by the "
              "items of B (translation_unit_reads_back_partial, translation_units_concatenate_partial over Parse/ClassDef.v, whose "
              "extracted loop runs beside parse_string on generated, mutated and test-suite inputs). For everything outside those models "
              "(doc comments, template headers on functions, attributes ...) the parser-side half is decided by the pair search: corpus x "
              "corpus and generated x generated in five contexts against an independent merge.")
LEVEL_NOTE = ("Trusted: Coq kernel, extraction, driver, harness. Parser-side independence of siblings: proved for the hand-written statement-loop model (tied by differential runs), searched beyond it. inline/doxygen of a re-opened "
              "namespace are overwritten by the later block (as coded) and handled that way by the oracle.")
TECHNIQUE = "Coq proof of fold compositionality (merge commutation over nested forests) and of the read-back / concatenation of whole translation units over a recursive statement-loop model + differentials (recorded streams, whole units) + pair-concatenation search"

"""Independent specification of the supported literal grammar (C08):
enumerators and random generators yielding (text, expected token class)."""
import itertools

INT_SUFFIX = ["", "u", "U", "l", "L", "ll", "LL", "ul", "uL", "Ul", "UL", "lu", "lU", "Lu", "LU",
              "ull", "uLL", "Ull", "ULL", "llu", "llU", "LLu", "LLU"]
FLOAT_SUFFIX = ["", "f", "F", "l", "L"]
CHAR_PREFIX = {"": "CHAR_CONST", "L": "WCHAR_CONST", "u8": "U8CHAR_CONST", "u": "U16CHAR_CONST", "U": "U32CHAR_CONST"}
STR_PREFIX = {"": "STRING_LITERAL", "L": "WSTRING_LITERAL", "u8": "U8STRING_LITERAL", "u": "U16STRING_LITERAL", "U": "U32STRING_LITERAL"}
SIMPLE_ESC = ["\\n", "\\t", "\\\\", "\\'", "\\\"", "\\?", "\\a", "\\b", "\\f", "\\r", "\\v"]
NUM_ESC = ["\\0", "\\7", "\\12", "\\123", "\\x1", "\\x1F", "\\xaB9"]
CCHARS = ["a", "Z", "0", " ", "\"", "/", "*", "é", "中", "(", "}"]
SCHARS = ["a", "Z", "0", " ", "'", "/", "*", "é", "中", "(", "}", "//", "/*"]
UDL = ["", "_km", "_", "_s1"]


def with_seps(digits):
    """digit strings with optional single separators between digits"""
    yield digits
    if len(digits) >= 2:
        yield digits[0] + "'" + digits[1:]
        if len(digits) >= 3:
            yield digits[:-1] + "'" + digits[-1]


def enum_ints(maxd):
    for n in range(1, maxd + 1):
        for ds in itertools.product("07", repeat=n - 1):
            body = "".join(ds)
            for first in "19":
                for t in with_seps(first + body):
                    yield t, "INT_CONST_DEC"
            for t in with_seps("0" + body):
                yield t, "INT_CONST_OCT"
    for n in range(1, maxd):
        for ds in itertools.product("09aF", repeat=n):
            for pre in ("0x", "0X"):
                for t in with_seps("".join(ds)):
                    yield pre + t, "INT_CONST_HEX"
        for ds in itertools.product("01", repeat=n):
            for pre in ("0b", "0B"):
                for t in with_seps("".join(ds)):
                    yield pre + t, "INT_CONST_BIN"


def enum_floats():
    D = ["0", "7", "19"]
    E = ["", "e5", "E5", "e+5", "e-12", "E+0"]
    for a in [""] + D:
        for b in D:
            for e in E:
                yield a + "." + b + e, "FLOAT_CONST"
    for a in D:
        for e in E:
            yield a + "." + e, "FLOAT_CONST"
        for e in E[1:]:
            yield a + e, "FLOAT_CONST"
    H = ["1", "aF", "0"]
    P = ["p3", "P3", "p+3", "p-12"]
    for pre in ("0x", "0X"):
        for a in H:
            for p in P:
                yield pre + a + p, "HEX_FLOAT_CONST"
                yield pre + a + "." + p, "HEX_FLOAT_CONST"
                for b in H:
                    yield pre + a + "." + b + p, "HEX_FLOAT_CONST"
        for b in H:
            for p in P:
                yield pre + "." + b + p, "HEX_FLOAT_CONST"


def enum_chars():
    for pre, cls in CHAR_PREFIX.items():
        for c in CCHARS + SIMPLE_ESC + NUM_ESC:
            yield pre + "'" + c + "'", cls
    pool = ["a", "\\n", "\\x1F", "\\12", "9"]
    for n in (2, 3, 4):
        for cs in itertools.product(pool, repeat=n):
            # a numeric escape swallows following (hex) digits: that would be a different literal
            if any(cs[i].startswith("\\") and cs[i][1] in "x01" and cs[i + 1][0] in "0123456789abcdefABCDEF"
                   for i in range(len(cs) - 1)):
                continue
            yield "'" + "".join(cs) + "'", "INT_CONST_CHAR"


def enum_strings():
    items = SCHARS + SIMPLE_ESC + NUM_ESC
    for pre, cls in STR_PREFIX.items():
        yield pre + "\"\"", cls
        for a in items:
            yield pre + "\"" + a + "\"", cls
        for a, b in itertools.product(items[::2], items[1::3]):
            yield pre + "\"" + a + b + "\"", cls


def all_literals(maxd=4):
    for t, c in enum_ints(maxd):
        for s in INT_SUFFIX:
            yield t + s, c
    for t, c in enum_floats():
        for s in FLOAT_SUFFIX:
            yield t + s, c
    yield from enum_chars()
    yield from enum_strings()


def rand_literal(rng):
    k = rng.random()
    d = lambda a, b, al="0123456789": "".join(rng.choice(al) for _ in range(rng.randint(a, b)))
    if k < 0.3:
        form = rng.choice(["dec", "oct", "hex", "bin"])
        if form == "dec":
            t, c = rng.choice("123456789") + d(0, 12), "INT_CONST_DEC"
        elif form == "oct":
            t, c = "0" + d(0, 10, "01234567"), "INT_CONST_OCT"
        elif form == "hex":
            t, c = rng.choice(["0x", "0X"]) + d(1, 12, "0123456789abcdefABCDEF"), "INT_CONST_HEX"
        else:
            t, c = rng.choice(["0b", "0B"]) + d(1, 16, "01"), "INT_CONST_BIN"
        # separators between digits
        if rng.random() < 0.4:
            body_start = 2 if form in ("hex", "bin") else 0
            chars = list(t)
            for i in range(len(chars) - 1, body_start, -1):
                if rng.random() < 0.3 and chars[i - 1] != "'" and chars[i] != "'" and i > body_start:
                    chars.insert(i, "'")
            t = "".join(chars)
        return t + rng.choice(INT_SUFFIX), c
    if k < 0.5:
        form = rng.randint(0, 4)
        e = rng.choice(["", "e" + d(1, 3), "E-" + d(1, 3), "e+" + d(1, 2)])
        if form == 0:
            t = d(0, 6) + "." + d(1, 6) + e
        elif form == 1:
            t = d(1, 6) + "." + e
        elif form == 2:
            t = d(1, 6) + rng.choice(["e", "E", "e-", "E+"]) + d(1, 3)
        else:
            h = lambda a, b: d(a, b, "0123456789abcdefABCDEF")
            t = rng.choice(["0x", "0X"]) + rng.choice([h(1, 5), h(0, 3) + "." + h(1, 4), h(1, 4) + "."]) + rng.choice(["p", "P", "p-", "p+"]) + d(1, 3)
            return t + rng.choice(FLOAT_SUFFIX), "HEX_FLOAT_CONST"
        return t + rng.choice(FLOAT_SUFFIX), "FLOAT_CONST"
    if k < 0.7:
        pre = rng.choice(list(CHAR_PREFIX))
        return pre + "'" + rng.choice(CCHARS + SIMPLE_ESC + NUM_ESC) + "'", CHAR_PREFIX[pre]
    pre = rng.choice(list(STR_PREFIX))
    body = "".join(rng.choice(SCHARS + SIMPLE_ESC + NUM_ESC) for _ in range(rng.randint(0, 12)))
    return pre + "\"" + body + "\"", STR_PREFIX[pre]

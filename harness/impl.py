"""Access to the real implementation (imported from /repo) + small glue."""
import os
import sys

REPO = os.environ.get("VERIF_REPO", "/repo")
if REPO not in sys.path:
    sys.path.insert(0, REPO)
sys.path.insert(0, os.path.join(os.path.dirname(os.path.dirname(os.path.abspath(__file__))), "translate"))

from common import token_types, tt_code_map  # noqa: E402

import cxxheaderparser  # noqa: E402
from cxxheaderparser import lexer as L  # noqa: E402
from cxxheaderparser import parser as P  # noqa: E402
from cxxheaderparser.errors import CxxParseError  # noqa: E402
from cxxheaderparser.simple import parse_string, SimpleCxxVisitor  # noqa: E402
from cxxheaderparser._ply import lex as plylex  # noqa: E402

TT = token_types()
CODE = tt_code_map()


class ListTokenStream(L.TokenStream):
    """A TokenStream over a fixed token list that behaves like the real lexer
    stream at end of input (_fill_tokbuf returns False)."""

    def __init__(self, toks):
        import typing
        self.tokbuf = typing.Deque[L.LexToken](toks)

    def _fill_tokbuf(self, tokbuf):
        return False

    def current_location(self):
        if self.tokbuf:
            return self.tokbuf[0].location
        return L.Location("<list>", 0)

    def get_doxygen(self):
        return None

    def get_doxygen_after(self):
        return None


def mk_tok(ty, value=None, line=1):
    t = plylex.LexToken()
    t.type = ty
    t.value = value if value is not None else ty
    t.lineno = line
    t.lexpos = 0
    t.location = L.Location("<list>", line)
    return t


class NullVisitor:
    def __getattr__(self, name):
        if name.startswith("on_"):
            return lambda *a, **k: None
        raise AttributeError(name)


def parser_over(toks):
    p = P.CxxParser("<list>", "", NullVisitor())
    p.lex = ListTokenStream(toks)
    return p


def data_eq(a, b):
    return a == b


_CORPUS = None


def corpus():
    """inputs the test-suite feeds parse_string (recorded once into corpus/tests.json): valid, no preprocessor"""
    global _CORPUS
    if _CORPUS is None:
        import json
        p = os.path.join(os.path.dirname(os.path.dirname(os.path.abspath(__file__))), "corpus", "tests.json")
        with open(p) as fp:
            _CORPUS = [c["content"] for c in json.load(fp) if c.get("ok") and not c.get("pp")]
    return _CORPUS

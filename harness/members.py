"""Shared codec for the member-statement commands of the extracted model (92 field statements, 93 typedef statements)."""
from harness import impl, decl
from harness.core import run_driver


def run_members(cmd, cases):
    """cases: list of (token spellings, declarator budget). Returns per case
    ('ok', flags9, [(name, tree, bits, value)], rest) | ('err', code)"""
    lines, nms = [], []
    for toks, n in cases:
        names = decl.Names()
        lines.append([cmd, n] + decl.enc_tokens(toks, names))
        nms.append(names)
    outs = run_driver(lines)
    res = []
    for o, names in zip(outs, nms):
        if o[0] != 0:
            res.append(('err', o[1]))
            continue
        rest, k = o[1], o[2]
        fl = tuple(bool(x) for x in o[3:12])
        i = 12
        items = []
        for _ in range(k):
            ln = o[i + 1]
            t, _j = decl.dec_type(o, i + 2, names)
            j = i + 2 + ln
            if o[j] == 0:
                bits, j = None, j + 1
            else:
                bits, j = names.rev.get(o[j + 1], '?'), j + 2
            if o[j] == 0:
                val, j = None, j + 1
            else:
                cnt = o[j + 1]
                val = tuple(names.rev[o[j + 2 + 2 * q + 1]] if o[j + 2 + 2 * q + 1] else impl.TT[o[j + 2 + 2 * q]] for q in range(cnt))
                j = j + 2 + 2 * cnt
            items.append((names.rev.get(o[i], '?'), t, bits, val))
            i = j
        res.append(('ok', fl, items, rest))
    return res

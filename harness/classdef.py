"""Differential run for whole class definitions, nested (Parse/ClassDef.v, driver command 121): the recursive model vs
parse_string with a visitor that records the delivered objects as a tree, in order."""
from harness import impl, decl, bodies
from harness.core import run_driver
from cxxheaderparser import types as T

ANON_BASE = 1000000
KEYS = {'class': 'class', 'struct': 'struct', 'union': 'union'}


# ---------------------------------------------------------------------------
# model side

def dec_key(d):
    return ' '.join(impl.TT[d.n()] for _k in range(d.n()))


def dec_pq(d):
    tn = d.b()
    key = tuple(impl.TT[d.n()] for _k in range(d.n()))
    segs = []
    for _k in range(d.n()):
        k = d.n()
        if k == 0:
            segs.append(('root',))
        elif k == 1:
            segs.append(('name', d.name(d.n())))
        else:
            segs.append(('fund', tuple(impl.TT[d.n()] for _j in range(d.n()))))
    return (tn, key, tuple(segs))


def dec_fin(d, acc, fl, td, bn, out):
    fk = d.n()
    if fk == 0:
        d.n()
    elif fk == 1:
        d.n()
        out.append(('field', acc, None, ('B', d.name(bn), False, False), None, None, (False, False, False, False)))
    elif fk == 2:
        bodies.dec_entries(d, None if td else (fl[2], fl[3], fl[4], fl[5]), td, out)
    else:
        bodies.dec_mentries(d, acc, fl, out)


def dec_items(d, cnt, in_class, out, tmpl=None):
    """decode [cnt] items; what follows a class's brace is flattened behind the class, as the parser delivers it"""
    from harness.props import c01
    for _ in range(cnt):
        kind = d.n()
        if kind == 10:
            hs = []
            for _h in range(d.n()):
                lst, d.i = c01.dec_tparams(d.o, d.i + 1, d.o[d.i], d.names)
                hs.append(tuple(lst))
            sub = []
            dec_items(d, 1, in_class, sub)
            # the headers belong to the class / forward declaration (the first entry); trailing declarators get none
            out.append(sub[0][:-1] + (tuple(hs),))
            out.extend(sub[1:])
            continue
        if kind == 0:
            acc = impl.TT[d.n()]
            bodies.dec_citem(d, acc, out)
        elif kind == 1:
            bodies.dec_nitem(d, out)
        elif kind == 2:
            a = d.n()
            out.append(('fwd', impl.TT[a] if a else None, dec_key(d), d.name(d.n()), None, ()))
        elif kind == 7:
            a = d.n()
            out.append(('fwd', impl.TT[a] if a else None, dec_key(d), d.name(d.n()), dec_pq(d), ()))
        elif kind == 8:
            a = d.n()
            acc = impl.TT[a] if a else None
            fl = d.mods()
            key, bn, anon, td = dec_key(d), d.n(), d.b(), d.b()
            base = dec_pq(d) if d.n() else None
            vals = []
            for _k in range(d.n()):
                nm = d.name(d.n())
                vals.append((nm, d.toks() if d.n() else None))
            out.append(('enum', acc, key, d.name(bn), base, tuple(vals)))
            dec_fin(d, acc, fl, td, bn, out)
        elif kind == 9:
            a = d.n()
            acc = impl.TT[a] if a else None
            k = d.n()
            if k == 1:
                root = d.b()
                out.append(('using-dir', root, tuple(d.name(d.n()) for _k in range(d.n()))))
            elif k == 2:
                out.append(('using-decl', acc, dec_pq(d)))
            else:
                al = d.name(d.n())
                out.append(('using-alias', acc, al, d.ty()))
        elif kind == 4:
            il = d.b()
            nms = tuple(d.name(d.n()) for _k in range(d.n()))
            members = []
            dec_items(d, d.n(), False, members)
            out.append(('ns', il, nms, members))
        elif kind == 5:
            al = d.name(d.n())
            out.append(('nsalias', al, tuple('::' if x == 0 else d.name(x) for x in [d.n() for _k in range(d.n())])))
        elif kind == 6:
            lk = d.name(d.n())
            members = []
            dec_items(d, d.n(), False, members)
            out.append(('extern', lk, members))
        else:
            a = d.n()
            acc = impl.TT[a] if a else None
            fl = d.mods()
            key, bn, anon, td, fi, ex = dec_key(d), d.n(), d.b(), d.b(), d.b(), d.b()
            bs = tuple((impl.TT[d.n()], d.name(d.n()), d.b(), d.b()) for _k in range(d.n()))
            members = []
            dec_items(d, d.n(), True, members)
            out.append(('class', acc, key, d.name(bn), fi, ex, bs, members, ()))
            dec_fin(d, acc, fl, td, bn, out)


def model_names(names):
    for i in range(1, 40):
        names.rev[ANON_BASE + i] = '<anon %d>' % i


# ---------------------------------------------------------------------------
# real side

class _TreeRec(impl.SimpleCxxVisitor):
    def __init__(self):
        self.root = []
        self.stack = [self.root]
        self.other = False

    def _add(self, kind, o):
        self.stack[-1].append((kind, o))

    def on_class_start(self, state):
        node = ('class', state.class_decl, [])
        self.stack[-1].append(node)
        self.stack.append(node[2])
        return super().on_class_start(state)

    def on_class_end(self, state):
        self.stack.pop()
        return super().on_class_end(state)

    def on_class_field(self, state, f):
        self._add('f', f); super().on_class_field(state, f)

    def on_class_method(self, state, m):
        self._add('m', m); super().on_class_method(state, m)

    def on_class_friend(self, state, fr):
        self._add('fr', fr); super().on_class_friend(state, fr)

    def on_variable(self, state, v):
        self._add('v', v); super().on_variable(state, v)

    def on_function(self, state, f):
        self._add('fn', f); super().on_function(state, f)

    def on_typedef(self, state, t):
        if isinstance(state, impl.P.ClassBlockState):
            self.other = True
        self._add('t', t); super().on_typedef(state, t)

    def on_method_impl(self, state, m):
        self._add('mi', m); super().on_method_impl(state, m)

    def on_forward_decl(self, state, f):
        self._add('fwd', f); super().on_forward_decl(state, f)

    def _o(self, *a):
        self.other = True

    def on_namespace_start(self, state):
        node = ('ns', state.namespace, [])
        self.stack[-1].append(node)
        self.stack.append(node[2])
        return super().on_namespace_start(state)

    def on_namespace_end(self, state):
        self.stack.pop()
        return super().on_namespace_end(state)

    def on_namespace_alias(self, state, a):
        self._add('nsalias', a); super().on_namespace_alias(state, a)

    def on_extern_block_start(self, state):
        node = ('extern', state.linkage, [])
        self.stack[-1].append(node)
        self.stack.append(node[2])
        return super().on_extern_block_start(state)

    def on_extern_block_end(self, state):
        self.stack.pop()
        return super().on_extern_block_end(state)

    def on_using_namespace(self, state, x):
        self._add('udir', list(x)); super().on_using_namespace(state, x)

    def on_using_alias(self, state, x):
        self._add('ualias', x); super().on_using_alias(state, x)

    def on_using_declaration(self, state, x):
        self._add('udecl', x); super().on_using_declaration(state, x)

    def on_enum(self, state, x):
        self._add('enum', x); super().on_enum(state, x)

    def on_template_inst(self, state, x):
        self.other = True; super().on_template_inst(state, x)

    def on_concept(self, state, x):
        self.other = True; super().on_concept(state, x)

    def on_deduction_guide(self, state, x):
        self.other = True; super().on_deduction_guide(state, x)


def _cname(qn):
    """the single name of a class-keyed (or plain) type name"""
    if len(qn.segments) != 1 or qn.has_typename:
        raise bodies.Other()
    s = qn.segments[0]
    if isinstance(s, T.AnonymousName):
        return '<anon %d>' % s.id
    if isinstance(s, T.NameSpecifier) and s.specialization is None:
        return s.name
    if isinstance(s, T.FundamentalSpecifier) and not qn.classkey:
        return s.name
    raise bodies.Other()


def ty(d):
    """decl.from_real, with class-keyed and anonymous base names allowed"""
    if isinstance(d, T.Type):
        return ('B', _cname(d.typename), d.const, d.volatile)
    if isinstance(d, T.Pointer):
        return ('P', ty(d.ptr_to), d.const, d.volatile)
    if isinstance(d, T.Reference):
        return ('R', ty(d.ref_to))
    if isinstance(d, T.MoveReference):
        return ('M', ty(d.moveref_to))
    if isinstance(d, T.Array):
        return ('A', ty(d.array_of), tuple(t.value for t in d.size.tokens) if d.size is not None else ())
    if isinstance(d, T.FunctionType):
        if d.has_trailing_return or d.noexcept is not None or d.msvc_convention:
            raise decl.Unrepresentable("function extras")
        ps = []
        for p in d.parameters:
            if p.default is not None or p.param_pack:
                raise decl.Unrepresentable("parameter extras")
            ps.append((ty(p.type), p.name))
        return ('F', ty(d.return_type), tuple(ps), d.vararg)
    raise decl.Unrepresentable(type(d).__name__)


def _pq(q):
    segs = []
    for sg in q.segments:
        if isinstance(sg, T.FundamentalSpecifier):
            segs.append(('fund', tuple(sg.name.split())))
        elif isinstance(sg, T.NameSpecifier) and sg.specialization is None:
            segs.append(('root',) if sg.name == '' else ('name', sg.name))
        else:
            raise bodies.Other()
    return (q.has_typename, tuple((q.classkey or '').split()), tuple(segs))


def _tmpl(t):
    from harness.props import c01
    if t is None:
        return ()
    lst = t if isinstance(t, list) else [t]
    for td in lst:
        if td.raw_requires_pre is not None:
            raise bodies.Other()
    return tuple(tuple(c01._conv_tdecl(td)) for td in lst)


def conv(items):
    out = []
    for it in items:
        kind, o = it[0], it[1]
        if kind == 'class':
            c = o
            if c.typename.classkey not in KEYS:
                raise bodies.Other()
            bs = []
            for b in c.bases:
                bs.append((b.access, _cname(b.typename), b.virtual, b.param_pack))
            out.append(('class', c.access, c.typename.classkey, _cname(c.typename), c.final, c.explicit, tuple(bs), conv(it[2]), _tmpl(c.template)))
        elif kind == 'ns':
            if o.doxygen is not None:
                raise bodies.Other()
            out.append(('ns', o.inline, tuple(o.names), conv(it[2])))
        elif kind == 'nsalias':
            out.append(('nsalias', o.alias, tuple(o.names)))
        elif kind == 'extern':
            out.append(('extern', o, conv(it[2])))
        elif kind == 'fwd':
            if not o.typename.classkey:
                raise bodies.Other()
            out.append(('fwd', o.access, o.typename.classkey, _cname(o.typename), None if o.enum_base is None else _pq(o.enum_base), _tmpl(o.template)))
        elif kind == 'enum':
            if not o.typename.classkey:
                raise bodies.Other()
            out.append(('enum', o.access, o.typename.classkey, _cname(o.typename), None if o.base is None else _pq(o.base),
                        tuple((e.name, None if e.value is None else tuple(t.value for t in e.value.tokens)) for e in o.values)))
        elif kind == 'udir':
            root = bool(o) and o[0] == ''
            out.append(('using-dir', root, tuple(o[1:] if root else o)))
        elif kind == 'udecl':
            out.append(('using-decl', o.access, _pq(o.typename)))
        elif kind == 'ualias':
            if o.template is not None:
                raise bodies.Other()
            out.append(('using-alias', o.access, o.alias, ty(o.type)))
        elif kind in ('f', 'm', 'fr'):
            out.append(bodies.class_item(kind, o, ty))
        else:
            out.append(bodies.ns_item({'v': 'v', 'fn': 'f', 't': 't', 'mi': 'm'}[kind], o, ty))
    return out


def real_text(text):
    v = _TreeRec()
    try:
        impl.P.CxxParser("<str>", text, v, None).parse()
    except (impl.CxxParseError, AssertionError, RecursionError):
        return ('err',)
    if v.other or len(v.stack) != 1:
        return ('other',)
    try:
        return ('ok', conv(v.root))
    except (decl.Unrepresentable, bodies.Other):
        return ('other',)


# ---------------------------------------------------------------------------
# generator

CLS_NAMES = ['Cls', 'S_', 'In', 'Deep']


KEY_ATTRS = [['__attribute__', '(', '(', 'packed', ')', ')'], ['__attribute__', '(', '(', 'aligned', '(', '8', ')', ')', ')'],
             ['__declspec', '(', 'dllexport', ')'], ['__declspec', '(', 'align', '(', '16', ')', ')']]


def key_attr(rng):
    """an attribute between the class key and the name (or the brace of an anonymous type)"""
    return list(rng.choice(KEY_ATTRS)) if rng.random() < 0.15 else []


TMPL_PARAMS = [['typename', 'T'], ['class', 'U'], ['typename', '...', 'Ts'], ['Foo', 'N'], ['typename', 'V', '=', 'Bar'], ['typename'],
               ['template', '<', 'typename', '>', 'class', 'TT'], ['Foo', '*', 'P'], ['class', 'W', '=', 'A', '<', 'B', '>']]


def tmpl_headers(rng):
    out = []
    for _ in range(rng.choice([1, 1, 1, 2])):
        ps = []
        for i in range(rng.choice([0, 1, 1, 2, 3])):
            if ps:
                ps.append(',')
            ps += rng.choice(TMPL_PARAMS)
        out += ['template', '<'] + ps + ['>']
    return out


def gen_class(rng, depth, in_class, td=False):
    """tokens of one class statement (definition or forward declaration); returns (tokens, declarator budget, statements)"""
    from harness.props import c03, c01
    key = rng.choice(['struct', 'class', 'union', 'struct'])
    pre = []
    if not td and rng.random() < 0.2:
        pre = [rng.choice(['static', 'const', 'constexpr', 'volatile'])]
    anon = rng.random() < 0.25
    name = None if anon else rng.choice(CLS_NAMES)
    if not anon and not td and rng.random() < 0.12:
        return (tmpl_headers(rng) if rng.random() < 0.3 else []) + [key, name, ';'], 1, 1
    toks = pre + [key] + key_attr(rng) + ([] if anon else [name])
    if not td and not pre and rng.random() < 0.2:
        toks = tmpl_headers(rng) + toks
    if not anon and rng.random() < 0.15:
        toks += ['final']
    if not anon and rng.random() < 0.3:
        toks += [':'] + rng.choice([['Base'], ['public', 'Base'], ['virtual', 'Base', ',', 'private', 'B2'], ['protected', 'virtual', 'Base']])
    toks += ['{']
    budget, stmts = 1, 2
    for _ in range(rng.choice([0, 1, 2, 3, 4])):
        r = rng.random()
        if r < 0.25:
            toks += [rng.choice(['public', 'private', 'protected']), ':']
            stmts += 1
        elif r < 0.3:
            toks += [';']
            stmts += 1
        elif r < 0.55 and depth > 0:
            t2, b2, s2 = gen_class(rng, depth - 1, True)
            toks += t2
            budget, stmts = max(budget, b2), stmts + s2
        elif r < 0.6:
            toks += ['friend'] + rng.choice([['Foo', ';'], ['void', 'ff', '(', 'T', ')', ';']])
            stmts += 1
        elif r < 0.7:
            toks += gen_enum_or_using(rng, True)
            stmts += 1
            budget = max(budget, 3)
        else:
            st, n = c03.gen_member_stmt(rng, name or 'Zz')
            if st[0] in ('inline', 'extern'):
                continue
            toks += st
            budget, stmts = max(budget, n), stmts + 1
    toks += ['}']
    # what follows the brace
    r = rng.random()
    if td:
        toks += rng.choice([['TD', ';'], ['*', 'PT', ',', 'TD2', ';'], ['TA', '[', '3', ']', ';']])
        budget = max(budget, 3)
    elif r < 0.6:
        toks += [';']
    elif in_class:
        toks += rng.choice([['m_a', ';'], ['*', 'm_p', ',', 'm_q', ';'], ['m_b', '[', '2', ']', ';'], ['m_c', '=', '{', '}', ';'], ['m_bits', ':', '3', ';']])
        budget = max(budget, 3)
    else:
        toks += rng.choice([['g_a', ';'], ['*', 'g_p', ',', 'g_q', ';'], ['g_f', '(', 'T', ')', ';'], ['g_b', '[', '2', ']', ',', '&', 'g_r', '=', 'g_a', ';']])
        budget = max(budget, 3)
    return toks, budget, stmts + 1


ENUM_TAILS_NS = [[';'], [';'], ['e_a', ';'], ['*', 'e_p', ',', 'e_q', ';'], ['e_b', '=', 'B', ';']]
ENUM_TAILS_CLS = [[';'], [';'], ['m_e', ';'], ['m_e1', ',', 'm_e2', ';'], ['m_eb', ':', '3', ';']]


def gen_enum_or_using(rng, in_class):
    r = rng.random()
    if r < 0.6:
        key = rng.choice([['enum'], ['enum'], ['enum', 'class'], ['enum', 'struct']])
        name = rng.choice([['E'], ['E'], ['Color'], []])
        base = rng.choice([[], [], [':', 'int'], [':', 'unsigned', 'long'], [':', 'ns', '::', 'U8']])
        if name and base and rng.random() < 0.2:
            return key + name + base + [';']
        if name and len(key) == 2 and rng.random() < 0.15:
            return key + name + [';']
        vals = []
        for i in range(rng.choice([0, 1, 2, 3])):
            if vals:
                vals.append(',')
            vals.append('V%d' % i)
            if rng.random() < 0.4:
                vals += ['='] + rng.choice([['1'], ['1', '<<', '2'], ['(', 'A', '|', 'B', ')'], ['f', '(', '1', ',', '2', ')']])
        if vals and rng.random() < 0.3:
            vals.append(',')
        pre = [rng.choice(['static', 'const'])] if rng.random() < 0.1 else []
        return pre + key + key_attr(rng) + name + base + ['{'] + vals + ['}'] + list(rng.choice(ENUM_TAILS_CLS if in_class else ENUM_TAILS_NS))
    if r < 0.75 and not in_class:
        return ['using', 'namespace'] + rng.choice([['n1'], ['::', 'n1', '::', 'n2'], ['n1', '::', 'n2']]) + [';']
    if r < 0.9:
        return ['using'] + rng.choice([['Base', '::', 'f'], ['::', 'n1', '::', 'g'], ['typename', 'T', '::', 'type']]) + [';']
    return ['using', rng.choice(['A1', 'Alias']), '='] + rng.choice([['Foo'], ['Foo', '*'], ['const', 'Bar', '&'], ['Foo', '[', '3', ']'], ['Bar', '*', 'const', '*'], ['int']]) + [';']


def gen_unit(rng, depth=2):
    from harness.props import c01
    toks, budget, stmts = [], 1, 1
    for _ in range(rng.choice([1, 1, 2, 3])):
        r = rng.random()
        if r < 0.3 and depth > 0:
            # blocks at namespace scope: namespaces (plain, nested names, inline, anonymous), linkage blocks; aliases
            q = rng.random()
            if q < 0.15:
                t2, b2, s2 = ['namespace', 'al', '='] + rng.choice([['n1'], ['::', 'n1', '::', 'n2'], ['n1', '::', 'n2']]) + [';'], 1, 1
            else:
                inner, b2, s2 = gen_unit(rng, depth - 1)
                if q < 0.75:
                    head = rng.choice([['namespace', 'n1'], ['namespace', 'n1', '::', 'n2'], ['namespace'], ['inline', 'namespace', 'n3'],
                                       ['namespace', 'n1', '::', 'n2', '::', 'n3']])
                else:
                    head = ['extern', rng.choice(['"C"', '"C++"'])]
                t2, s2 = head + ['{'] + inner + ['}'], s2 + 2
        elif r < 0.38:
            t2, b2, s2 = gen_enum_or_using(rng, False), 3, 1
        elif r < 0.45:
            # declarations that start with `inline` / `extern`: dispatched to their own handlers first
            t2, b2 = c01.gen_mixed_stmt(rng)
            while t2[0] in ('inline', 'extern'):
                t2 = t2[1:]
            t2, s2 = rng.choice([['inline'], ['extern'], ['extern', '"C"'], ['inline', 'static']]) + t2, 1
        elif r < 0.65:
            t2, b2, s2 = gen_class(rng, rng.choice([0, 1, 2, 3]), False)
        elif r < 0.8:
            t2, b2, s2 = gen_class(rng, rng.choice([0, 1]), False, td=True)
            t2 = ['typedef'] + t2
        else:
            t2, b2 = c01.gen_mixed_stmt(rng)
            s2 = 1
            if t2[0] in ('inline', 'extern'):
                continue
        toks += t2
        budget, stmts = max(budget, b2), stmts + s2
    return toks, budget, stmts


def corr_class_defs(ctx, corr):
    from harness.props import c02
    rng = ctx.rng
    cases = []
    for _ in range(ctx.scale(700, 14000)):
        toks, budget, stmts = gen_unit(rng)
        if not toks:
            continue
        cases.append((toks, budget, stmts))
        if rng.random() < 0.25:
            mt = c02.mutate(rng, toks) or [';']
            cases.append((mt, budget + 2, stmts + 4))
    lines, nms = [], []
    for toks, budget, stmts in cases:
        names = decl.Names()
        pairs = []
        for c in CLS_NAMES + ['Zz']:
            pairs += [names.id(c), names.id('~' + c)]
        lines.append([121, len(toks) + 4, budget + 1, 0, 0, 0, 0, len(pairs) // 2] + pairs + decl.enc_tokens(toks, names))
        model_names(names)
        nms.append(names)
    for (toks, budget, stmts), o, names in zip(cases, run_driver(lines), nms):
        corr.cases += 1
        if o[0] == 0:
            d = bodies.Dec(o, names)
            d.i = 1
            rest, _aid, cnt = d.n(), d.n(), d.n()
            items = []
            dec_items(d, cnt, False, items)
            m = ('ok', items, rest)
        else:
            m = ('err', o[1])
        r = real_text(' '.join(toks))
        k = "classdef:" + (m[0] if m[0] == 'ok' else 'err%d' % m[1]) + "/" + r[0]
        corr.dist[k] = corr.dist.get(k, 0) + 1
        msg = None
        if m[0] == 'ok' and m[2] == 0:
            if r[0] == 'err':
                msg = "model decodes the text but the implementation rejects it"
            elif r[0] == 'ok' and r[1] != m[1]:
                msg = "model %s; implementation %s" % (m[1], r[1])
        elif m[0] == 'err' and m[1] in (1, 2, 3) and r[0] == 'ok' and not decl.final_as_name(toks):
            msg = "model rejects (code %d) but the implementation reports %s" % (m[1], r[1])
        elif m[0] == 'err' and m[1] == 9 and r[0] == 'ok':
            msg = "model ran out of fuel"
        if msg:
            corr.disagreements.append(dict(case=dict(kind='corr-classdef', tokens=toks, budget=budget), model=str(m)[:900], impl=str(r)[:900],
                                           what="class definitions `%s`: %s" % (' '.join(toks), msg)))


def lex_strings(src):
    """the significant tokens of a source text, by the real lexer"""
    lx = impl.L.LexerTokenStream(None, src)
    out = []
    while True:
        t = lx.token_eof_ok()
        if t is None:
            return out
        out.append((t.type, t.value))


def corr_corpus_units(ctx, corr):
    """the same model on the inputs of the test-suite (human-written headers): whatever of them lies inside the model's vocabulary
    must read as the implementation reads it"""
    cases = []
    for src in impl.corpus():
        if '#' in src or len(src) > 4000:
            continue
        try:
            toks = lex_strings(src)
        except Exception:
            continue
        if toks:
            cases.append((src, toks))
    lines, nms = [], []
    for src, toks in cases:
        names = decl.Names()
        pairs = []
        for c in sorted(set(v for ty, v in toks if ty == 'NAME' and not v.startswith('~'))):
            pairs += [names.id(c), names.id('~' + c)]
        enc = []
        for ty, v in toks:
            if ty not in decl.CODE:
                enc = None
                break
            enc += [decl.CODE[ty], 0 if ty == 'void' else names.id(v)]
        if enc is None:
            enc = [0, 0]
        lines.append([121, len(toks) + 4, sum(1 for ty, v in toks if v == ',') + 3, 0, 0, 0, 0, len(pairs) // 2] + pairs + enc)
        model_names(names)
        nms.append(names)
    inside = 0
    for (src, toks), o, names in zip(cases, run_driver(lines), nms):
        corr.cases += 1
        if o[0] == 0:
            d = bodies.Dec(o, names)
            d.i = 1
            rest, _aid, cnt = d.n(), d.n(), d.n()
            items = []
            try:
                dec_items(d, cnt, False, items)
            except Exception as e:                      # a decoding problem is a harness defect: report it
                corr.disagreements.append(dict(case=dict(kind='corr-corpus-unit', source=src), model='undecodable: %r' % (e,), impl='',
                                               what="corpus unit: the model's answer cannot be decoded (%r)" % (e,)))
                continue
            m = ('ok', items, rest)
        else:
            m = ('err', o[1])
        r = real_text(src)
        k = "corpus-unit:" + (m[0] if m[0] == 'ok' else 'err%d' % m[1]) + "/" + r[0]
        corr.dist[k] = corr.dist.get(k, 0) + 1
        msg = None
        if m[0] == 'ok' and m[2] == 0:
            inside += 1
            if r[0] == 'err':
                msg = "model decodes the text but the implementation rejects it"
            elif r[0] == 'ok' and r[1] != m[1]:
                msg = "model %s; implementation %s" % (m[1], r[1])
        elif m[0] == 'err' and m[1] in (1, 2, 3) and r[0] == 'ok' and not decl.final_as_name([v for _ty, v in toks]):
            msg = "model rejects (code %d) but the implementation reports %s" % (m[1], r[1])
        elif m[0] == 'err' and m[1] == 9 and r[0] == 'ok':
            msg = "model ran out of fuel"
        if msg:
            corr.disagreements.append(dict(case=dict(kind='corr-corpus-unit', source=src), model=str(m)[:900], impl=str(r)[:900],
                                           what="test-suite input `%s`: %s" % (src[:300], msg)))
    return inside

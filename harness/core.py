"""Shared check machinery: REGEN -> PROVE -> CORRESPOND -> SEARCH -> VERDICT.

Every property module (harness/props/cNN.py) provides
    PID, TITLE
    THEOREM_FILE        e.g. "Props/C13.v"
    correspond(ctx) -> Corr        (model vs implementation on the same cases)
    search(ctx, boost) -> Search   (property oracle against the implementation)
    replay(ctx, case) -> list of violation strings (empty = holds)
The verdict logic is in run_check().
"""
import fcntl
import hashlib
import json
import os
import random
import re
import subprocess
import sys
import time

VERIF = os.path.dirname(os.path.dirname(os.path.abspath(__file__)))
COQ = os.path.join(VERIF, "coq")
REPO = os.environ.get("VERIF_REPO", "/repo")
PY = "/venv/bin/python"

ENV = dict(os.environ)
ENV["PYTHONPATH"] = REPO
ENV["PYTHONHASHSEED"] = "0"
ENV["CXXHEADERPARSER_VERIF"] = "1"

TRUSTED_BASE = [
    "Coq 8.16.1 kernel incl. vm_compute (no native_compute)",
    "axioms: none (every property theorem must print 'Closed under the global context')",
    "translator /verif/translate/*.py (live-object and AST reading of /repo) + CPython's re._parser for regex trees",
    "extraction: ExtrOcamlBasic only (Extract Inductive bool/option/unit/list/prod/sumbool/sumor, Extract Inlined Constant andb/orb/negb/fst/snd); no Extract Constant of ours; N/positive/nat stay extracted inductives",
    "OCaml 4.13.1 + 30-line driver coq/Extract/driver.ml (int<->N conversion, printing)",
    "correspondence harness /verif/harness (generators, canonicalisation, oracles), CPython 3.12",
    "hand-written models are validated by differential execution only; generated models additionally by regeneration on every run",
]

FORBIDDEN = re.compile(r"\b(Admitted|admit|Axiom|Axioms|Parameter|Parameters|Conjecture|Conjectures)\b|Unset Guard|bypass_check|type-in-type|impredicative-set|Admit Obligations|Unset Positivity|Unset Universe")
SECTION_ONLY = re.compile(r"^\s*(Variable|Variables|Hypothesis|Hypotheses|Context)\b")


class Corr:
    def __init__(self):
        self.cases = 0
        self.disagreements = []   # list of dict(case=..., model=..., impl=...)
        self.samples = []
        self.note = ""
        self.dist = {}


class Search:
    def __init__(self):
        self.evaluations = 0
        self.nontrivial = set()
        self.violations = []      # list of dict(what=str, case=dict)
        self.samples = []
        self.rule = ""
        self.dist = {}
        self.exhaustive = False

    def count(self, key):
        self.dist[key] = self.dist.get(key, 0) + 1


class Ctx:
    def __init__(self, pid, tier, seed):
        self.pid = pid
        self.tier = tier
        self.seed = seed
        self.rng = random.Random(seed)
        self.t0 = time.time()
        self.thorough = tier == "thorough"

    def scale(self, quick, thorough):
        return thorough if self.thorough else quick

    def elapsed(self):
        return time.time() - self.t0


def sh(cmd, timeout=600, cwd=None, env=None, input=None):
    try:
        p = subprocess.run(cmd, shell=isinstance(cmd, str), cwd=cwd, env=env or ENV,
                           stdout=subprocess.PIPE, stderr=subprocess.STDOUT,
                           timeout=timeout, input=input, text=True)
        return p.returncode, p.stdout
    except subprocess.TimeoutExpired as e:
        out = e.stdout or ""
        if isinstance(out, bytes):
            out = out.decode("utf-8", "replace")
        return 124, out + "\nTIMEOUT after %ss" % timeout


class BuildLock:
    def __enter__(self):
        self.fp = open(os.path.join(COQ, ".lock"), "w")
        fcntl.flock(self.fp, fcntl.LOCK_EX)
        return self

    def __exit__(self, *a):
        fcntl.flock(self.fp, fcntl.LOCK_UN)
        self.fp.close()


def regen():
    rc, out = sh([PY, os.path.join(VERIF, "translate", "gen.py")], timeout=300)
    return rc == 0, out


def ensure_makefile():
    mk = os.path.join(COQ, "Makefile")
    cp = os.path.join(COQ, "_CoqProject")
    if not os.path.exists(mk) or os.path.getmtime(mk) < os.path.getmtime(cp):
        sh("coq_makefile -f _CoqProject -o Makefile", cwd=COQ, timeout=120)


def make(targets, timeout=1500):
    ensure_makefile()
    rc, out = sh(["make", "-j", "12"] + list(targets), cwd=COQ, timeout=timeout)
    return rc == 0, out


def build_driver():
    ok, out = make(["Extract/Extract.vo"])
    if not ok:
        return False, out
    rc, out2 = sh(["./build_driver.sh"], cwd=COQ, timeout=300)
    return rc == 0, out + out2


def run_driver(lines, timeout=900):
    """lines: list of lists of ints (cmd first). Returns list of lists of ints."""
    data = "\n".join(" ".join(str(x) for x in l) for l in lines) + "\n"
    p = subprocess.run([os.path.join(COQ, "Extract", "driver")], input=data, text=True,
                       stdout=subprocess.PIPE, stderr=subprocess.PIPE, timeout=timeout)
    if p.returncode != 0:
        raise RuntimeError("driver failed: " + p.stderr[-500:])
    outs = p.stdout.split("\n")
    res = []
    for i in range(len(lines)):
        res.append([int(x) for x in outs[i].split()])
    return res


def scan_forbidden():
    """No admitted proofs / declared axioms anywhere; Variable/Hypothesis only
    inside a Section."""
    bad = []
    for root, _, files in os.walk(COQ):
        for f in files:
            if not f.endswith(".v"):
                continue
            path = os.path.join(root, f)
            depth = 0
            with open(path, encoding="utf-8") as fp:
                for i, line in enumerate(fp, 1):
                    if re.match(r"^\s*Section\s+\w+", line):
                        depth += 1
                    elif re.match(r"^\s*End\s+\w+\s*\.", line) and depth > 0:
                        depth -= 1
                    if FORBIDDEN.search(line) or (depth == 0 and SECTION_ONLY.search(line)):
                        bad.append("%s:%d: %s" % (os.path.relpath(path, COQ), i, line.strip()[:80]))
    return bad


def prove(theorem_file):
    """Build the property file's dependencies and the file itself; return
    dict(ok, obligations, discharged, log, theorems, assumptions)."""
    res = dict(ok=False, obligations=0, discharged=0, log="", theorems=[], open=[])
    vo = theorem_file[:-2] + ".vo"
    ok, out = make([vo])
    res["log"] = out[-4000:]
    src = os.path.join(COQ, theorem_file)
    if not os.path.exists(src):
        res["log"] += "\nmissing " + theorem_file
        return res
    with open(src, encoding="utf-8") as fp:
        text = fp.read()
    names = re.findall(r"^Print Assumptions (\w+)\.", text, re.M)
    thms = re.findall(r"^\s*(?:Theorem|Corollary) (\w+)", text, re.M)
    res["theorems"] = thms
    res["obligations"] = len(names)
    if set(names) != set(thms):
        res["log"] += "\nProps file: every Theorem needs a Print Assumptions (and vice versa)"
        return res
    if not ok:
        return res
    # re-run coqc on the property file alone to capture Print Assumptions
    import shutil
    tmpd = os.path.join(COQ, ".tmp", "%d" % os.getpid())
    os.makedirs(tmpd, exist_ok=True)
    tmp = os.path.join(tmpd, os.path.basename(theorem_file)[:-2] + ".vo")
    rc, out2 = sh(["coqc", "-Q", ".", "CXV", "-w", "none", "-o", tmp, theorem_file], cwd=COQ, timeout=600)
    shutil.rmtree(tmpd, ignore_errors=True)
    res["log"] += out2[-3000:]
    if rc != 0:
        return res
    closed = out2.count("Closed under the global context")
    res["discharged"] = closed
    if "Axioms:" in out2:
        res["open"].append(out2[out2.index("Axioms:"):][:600])
    bad = scan_forbidden()
    if bad:
        res["log"] += "\nFORBIDDEN constructs: " + "; ".join(bad[:5])
        return res
    res["ok"] = closed == len(names) and len(names) > 0
    return res


# ---------------------------------------------------------------------------
# known findings, replays, evidence
# ---------------------------------------------------------------------------

def load_known(pid):
    path = os.path.join(VERIF, "known_findings.json")
    if not os.path.exists(path):
        return []
    with open(path, encoding="utf-8") as fp:
        data = json.load(fp)
    return [e for e in data.get("findings", []) if e.get("property") == pid and e.get("status") == "known"]


def write_replay(pid, payload):
    d = os.path.join(VERIF, "replays", pid)
    os.makedirs(d, exist_ok=True)
    blob = json.dumps(payload, sort_keys=True, ensure_ascii=False, default=str)
    h = hashlib.sha1(blob.encode("utf-8")).hexdigest()[:12]
    path = os.path.join(d, h + ".json")
    with open(path, "w", encoding="utf-8") as fp:
        fp.write(json.dumps(payload, indent=1, ensure_ascii=False, default=str))
    return path


def write_evidence(ctx, mod, pr, corr, srch, violations, known_hits, extra=None):
    os.makedirs(os.path.join(VERIF, "evidence"), exist_ok=True)
    samples = []
    if srch:
        samples += srch.samples[:4]
    if corr:
        samples += corr.samples[:3]
    if not samples:
        samples = [{"note": "no sample produced"}]
    cov = {
        "obligations": pr["obligations"],
        "discharged": pr["discharged"],
        "checker_cmd": "cd /verif/coq && make %s && coqc -Q . CXV %s  (Print Assumptions under every theorem); thorough: coqchk -o" % (mod.THEOREM_FILE[:-2] + ".vo", mod.THEOREM_FILE),
        "trusted_base": TRUSTED_BASE + getattr(mod, "EXTRA_TRUSTED", []),
        "theorems": pr["theorems"],
        "partial_or_refuted": [t for t in pr["theorems"] if t.endswith("_partial") or t.endswith("_refuted")],
        "evaluations": (srch.evaluations if srch else 0) + (corr.cases if corr else 0),
        "distinct_nontrivial": len(srch.nontrivial) if srch else 0,
        "rule": (srch.rule if srch else "") or getattr(mod, "RULE", ""),
        "samples": samples,
        "correspondence_cases": corr.cases if corr else 0,
        "correspondence_disagreements": len(corr.disagreements) if corr else 0,
        "correspondence_note": corr.note if corr else "",
        "search_distribution": srch.dist if srch else {},
        "correspondence_distribution": corr.dist if corr else {},
        "known_findings_hit": known_hits,
        "exhaustive": bool(srch.exhaustive) if srch else False,
        "modelled_not_verified": getattr(mod, "MODELLED", ""),
    }
    if extra:
        cov.update(extra)
    ev = {
        "property_id": ctx.pid,
        "tier": ctx.tier,
        "seed": ctx.seed,
        "level": "proof",
        "coverage": cov,
        "assumptions": getattr(mod, "ASSUMPTIONS", []),
        "wall_s": round(ctx.elapsed(), 2),
        "violations": violations,
    }
    path = os.path.join(VERIF, "evidence", ctx.pid + ".json")
    with open(path + ".tmp", "w", encoding="utf-8") as fp:
        json.dump(ev, fp, indent=1, ensure_ascii=False, default=str)
    os.replace(path + ".tmp", path)


def classify(mod, viol, known):
    """Return the known-finding entry a violation belongs to, or None."""
    for e in known:
        fn = getattr(mod, "KNOWN_CLASSIFIERS", {}).get(e.get("classifier"))
        if fn is None:
            continue
        try:
            if fn(viol["case"]):
                return e
        except Exception:
            continue
    return None


def run_check(mod, tier, seed, replay_path=None):
    ctx = Ctx(mod.PID, tier, seed)
    pid = mod.PID
    if replay_path:
        with open(replay_path, encoding="utf-8") as fp:
            payload = json.load(fp)
        if payload.get("kind") in ("proof", "correspondence-only"):
            print("replay names a proof/correspondence obligation; re-running the full check")
        else:
            msgs = mod.replay(ctx, payload.get("case"))
            if msgs:
                print("VIOLATION property=%s replay=%s" % (pid, replay_path))
                for m in msgs:
                    print("  " + m)
                return 1
            print("replay: property holds on this case")
            return 0

    known = load_known(pid)
    with BuildLock():
        ok_regen, regen_log = regen()
        pr = prove(mod.THEOREM_FILE)
        drv_ok, drv_log = (False, "")
        if getattr(mod, "NEEDS_DRIVER", True):
            drv_ok, drv_log = build_driver()
    if not ok_regen and not pr["ok"]:
        # (a module the translator could not produce is a stub without definitions: whatever used it has stopped compiling;
        # theorem files that do not depend on it are unaffected)
        pr["log"] = regen_log[-2000:] + "\n" + pr["log"]
    elif "PIN-MISMATCH" in regen_log and not pr["ok"]:
        pr["log"] = "\n".join(l for l in regen_log.split("\n") if l.startswith("PIN-MISMATCH")) + "\n" + pr["log"]

    corr = None
    corr_err = None
    if hasattr(mod, "correspond") and (drv_ok or not getattr(mod, "NEEDS_DRIVER", True)):
        try:
            corr = mod.correspond(ctx)
        except Exception as e:  # harness failure counts as broken correspondence
            import traceback
            corr_err = "correspondence crashed: %s\n%s" % (e, traceback.format_exc()[-1500:])
    elif hasattr(mod, "correspond"):
        corr_err = "model driver did not build:\n" + drv_log[-1500:]

    broken = (not pr["ok"]) or corr_err is not None or (corr is not None and corr.disagreements)
    srch = None
    try:
        srch = mod.search(ctx, boost=bool(broken))
    except Exception as e:
        import traceback
        srch = Search()
        srch.violations.append(dict(what="search harness crashed on the implementation: %s" % e,
                                    case=dict(kind="crash", trace=traceback.format_exc()[-2000:])))

    nviol = 0
    known_hits = []
    seen_known = set()
    reported = 0
    for v in srch.violations:
        e = classify(mod, v, known)
        if e is not None:
            if e["id"] not in seen_known:
                seen_known.add(e["id"])
                known_hits.append(e["id"])
                print("KNOWN-FINDING: property=%s %s (%s)" % (pid, e["what"], e["id"]))
            continue
        nviol += 1
        if reported < 5:
            reported += 1
            path = write_replay(pid, dict(property=pid, kind="input", what=v["what"], case=v["case"],
                                          seed=seed, tier=tier))
            print("VIOLATION property=%s replay=%s" % (pid, path))
            print("  " + v["what"][:600])
    # listed known findings are always announced (they are defects of the tree)
    for e in known:
        if e["id"] not in seen_known and e.get("always_announce", True):
            wit = getattr(mod, "KNOWN_WITNESS_CHECK", None)
            if wit is not None and wit(e):
                print("KNOWN-FINDING: property=%s %s (%s)" % (pid, e["what"], e["id"]))
                known_hits.append(e["id"])

    if nviol == 0 and broken:
        nviol = 1
        if not pr["ok"]:
            payload = dict(property=pid, kind="proof", theorem_file=mod.THEOREM_FILE,
                           what="proof obligation / regeneration no longer checks", log=pr["log"][-3000:],
                           seed=seed, tier=tier)
        elif corr_err:
            payload = dict(property=pid, kind="correspondence-only", what=corr_err, seed=seed, tier=tier)
        else:
            payload = dict(property=pid, kind="correspondence-only",
                           what="model and implementation disagree", cases=corr.disagreements[:5],
                           seed=seed, tier=tier)
        path = write_replay(pid, payload)
        print("VIOLATION property=%s replay=%s no-failing-input-found" % (pid, path))
        print("  " + payload["what"][:300])
        if not pr["ok"]:
            print("  " + pr["log"][-800:].replace("\n", "\n  "))

    extra = {}
    if ctx.thorough and pr["ok"]:
        extra["coqchk"] = coqchk(mod.THEOREM_FILE)
    write_evidence(ctx, mod, pr, corr, srch, nviol, known_hits, extra)
    print("%s %s: obligations %d/%d, correspondence %s, search %d evals (%d distinct non-trivial), %.1fs -> %s" % (
        pid, tier, pr["discharged"], pr["obligations"],
        ("%d cases/%d disagreements" % (corr.cases, len(corr.disagreements))) if corr else ("n/a" if not corr_err else "BROKEN"),
        srch.evaluations, len(srch.nontrivial), ctx.elapsed(), "FAIL" if nviol else "ok"))
    return 1 if nviol else 0


def coqchk(theorem_file):
    mod = "CXV." + theorem_file[:-2].replace("/", ".")
    rc, out = sh(["coqchk", "-silent", "-o", "-Q", ".", "CXV", mod], cwd=COQ, timeout=3000)
    tail = out[-1500:]
    return dict(rc=rc, tail=tail)

"""Block-skeleton programs: generator (source + event list), recording
visitor for the real parser, canonical streams shared by C03/C04/C05/C12."""
from harness import impl

CB_NAMES = ["on_variable", "on_function", "on_typedef", "on_using_alias", "on_using_namespace",
            "on_using_declaration", "on_enum", "on_forward_decl", "on_namespace_alias", "on_concept",
            "on_template_inst", "on_method_impl", "on_pragma", "on_include", "on_deduction_guide",
            "on_class_field", "on_class_method", "on_class_friend"]
CB_CODE = {n: i + 1 for i, n in enumerate(CB_NAMES)}
ACC = {None: 0, "private": 1, "public": 2, "protected": 3}
KIND = {"ns": 0, "extern": 1, "class": 2}

NS_ITEMS = [
    ("int v{n};", "on_variable"), ("void f{n}();", "on_function"), ("typedef int t{n};", "on_typedef"),
    ("using u{n} = int;", "on_using_alias"), ("using namespace ns{n};", "on_using_namespace"),
    ("using ::x{n};", "on_using_declaration"), ("enum e{n} {{ a{n} }};", "on_enum"),
    ("class fwd{n};", "on_forward_decl"), ("namespace al{n} = a::b;", "on_namespace_alias"),
    ("template <typename T> concept c{n} = true;", "on_concept"),
    ("template class X{n}<int>;", "on_template_inst"), ("void S{n}::m() {{}}", "on_method_impl"),
    ("#pragma p{n}", "on_pragma"), ("#include <h{n}>", "on_include"),
    ("template <typename T> G{n}(T) -> G{n}<T>;", "on_deduction_guide"),
    ("static_assert(x{n});", None), (";", None), ("[[a{n}]];", None),
    ("extern \"C\" int ev{n};", "on_variable"), ("inline int iv{n} = 1;", "on_variable"),
    ("template <typename T> T tf{n}(T);", "on_function"),
]
CLASS_ITEMS = [
    ("int m{n};", "on_class_field"), ("void m{n}();", "on_class_method"), ("friend class F{n};", "on_class_friend"),
    ("typedef int t{n};", "on_typedef"), ("using u{n} = int;", "on_using_alias"), ("using B::x{n};", "on_using_declaration"),
    ("enum e{n} {{ a{n} }};", "on_enum"), ("class fwd{n};", "on_forward_decl"), ("static_assert(x{n});", None),
    ("int b{n} : 3;", "on_class_field"), ("virtual void vm{n}() = 0;", "on_class_method"),
    ("static int s{n};", "on_class_field"), ("friend void ff{n}();", "on_class_friend"), (";", None),
    ("template <typename T> void tm{n}(T);", "on_class_method"),
]


class Gen:
    def __init__(self, rng, budget, with_access=True, item_rate=0.6, cross=False):
        self.cross = cross
        self.rng = rng
        self.n = 0
        self.lines = []
        self.events = []     # ('open', kind, a0, line) | ('close',) | ('item', cb) | ('access', a)
        self.budget = budget
        self.with_access = with_access
        self.item_rate = item_rate

    def fresh(self):
        self.n += 1
        return self.n

    def emit(self, text):
        self.lines.append(text)
        return len(self.lines)

    def item(self, in_class):
        if self.cross and self.rng.random() < 0.35:
            in_class = not in_class          # deliberately misplaced item (mutated-input stream)
        tmpl, cb = self.rng.choice(CLASS_ITEMS if in_class else NS_ITEMS)
        line = self.emit(tmpl.format(n=self.fresh()))
        if cb:
            self.events.append(("item", cb, line))

    def body(self, ctx, depth):
        """ctx in 'ns', 'extern', 'class'"""
        rng = self.rng
        while self.budget > 0:
            r = rng.random()
            self.budget -= 1
            if r < self.item_rate:
                self.item(ctx == "class")
            elif r < self.item_rate + 0.08 and ctx == "class" and self.with_access:
                a = rng.choice(["public", "private", "protected"])
                self.emit(a + ":")
                self.events.append(("access", ACC[a]))
            elif r < 0.9 and depth < 6:
                self.block(ctx, depth)
            else:
                return

    def block(self, ctx, depth):
        rng = self.rng
        n = self.fresh()
        choices = ["class", "class", "struct", "union"]
        if ctx != "class" or self.cross:
            choices += ["ns", "ns", "ns_anon", "ns_nested", "ns_inline", "extern"]
        k = rng.choice(choices)
        if k.startswith("ns"):
            # names come from a small pool so that namespaces are re-opened, also through a::b forms
            pool1 = ["n1", "n2", "n3", "n%d" % n]
            pooln = ["n1::n2", "n1::m", "n2::n1::k", "n1::n2::n3", "a%d::b%d" % (n, n), "n3::n%d" % n]
            head = {"ns": "namespace %s {" % rng.choice(pool1), "ns_anon": "namespace {", "ns_nested": "namespace %s {" % rng.choice(pooln),
                    "ns_inline": "inline namespace i%d {" % n}[k]
            line = self.emit(head)
            self.events.append(("open", KIND["ns"], 0, line))
            self.body("ns", depth + 1)
            self.emit("}")
            self.events.append(("close",))
        elif k == "extern":
            line = self.emit("extern \"C\" {")
            self.events.append(("open", KIND["extern"], 0, line))
            self.body("extern", depth + 1)
            self.emit("}")
            self.events.append(("close",))
        else:
            a0 = ACC["private"] if k == "class" else ACC["public"]
            form = rng.choice(["plain", "plain", "plain", "trail", "typedef", "anon_member", "base", "final"])
            if form == "anon_member" and not (ctx == "class" and k in ("struct", "union")):
                form = "plain"
            if form == "typedef":
                line = self.emit("typedef %s {" % k)
            elif form == "anon_member":
                line = self.emit("%s {" % k)
            elif form == "base":
                line = self.emit("%s C%d : public B%d {" % (k, n, n))
            elif form == "final":
                line = self.emit("%s C%d final {" % (k, n))
            else:
                line = self.emit("%s C%d {" % (k, n))
            self.events.append(("open", KIND["class"], a0, line))
            self.body("class", depth + 1)
            self.events.append(("close",))
            in_class = ctx == "class"
            if form == "trail":
                line = self.emit("} v%d, *p%d;" % (n, n))
                cb = "on_class_field" if in_class else "on_variable"
                self.events += [("item", cb, line), ("item", cb, line)]
            elif form == "typedef":
                line = self.emit("} T%d;" % n)
                self.events.append(("item", "on_typedef", line))
            elif form == "anon_member":
                cl = self.emit("};")
                # implicit field of the anonymous member: its extent is the whole block
                self.events.append(("item", "on_class_field", cl, line))
            else:
                self.emit("};")

    def source(self):
        return "\n".join(self.lines) + "\n"


def gen_program(rng, budget, **kw):
    g = Gen(rng, budget, **kw)
    g.body("ns", 0)
    if not g.lines:
        g.item(False)
    return g


def open_lines(events):
    """line of each open event -> model id (1-based order of opening)"""
    m = {}
    k = 0
    for e in events:
        if e[0] == "open":
            k += 1
            m[e[3]] = k
    return m


def encode_events(events, skip_ids):
    out = [10, len(skip_ids)] + list(skip_ids)
    for e in events:
        if e[0] == "open":
            out += [1, e[1], e[2]]
        elif e[0] == "close":
            out += [2]
        elif e[0] == "item":
            out += [3, CB_CODE[e[1]]]
        else:
            out += [4, e[1]]
    return out


def decode_stream(nums):
    """inverse of Run.enc_cbs (+ status)"""
    out = []
    i = 0
    status = None
    while i < len(nums):
        t = nums[i]
        if t == 0:
            out.append(("parse_start", nums[i + 1])); i += 2
        elif t == 1:
            out.append(("start", nums[i + 1], nums[i + 2], nums[i + 3])); i += 4
        elif t == 2:
            out.append(("end", nums[i + 1], nums[i + 2])); i += 3
        elif t == 3:
            out.append(("item", nums[i + 1], nums[i + 2], nums[i + 3])); i += 4
        elif t == 9:
            status = nums[i + 1]; i += 2
        else:
            raise ValueError("bad stream code %r" % t)
    return out, status


START = {"on_namespace_start": 0, "on_extern_block_start": 1, "on_class_start": 2}
END = {"on_namespace_end": 0, "on_extern_block_end": 1, "on_class_end": 2}


def payload_access(name, payload):
    p = payload
    if name == "on_class_friend":
        p = payload.cls if payload.cls is not None else payload.fn
    return ACC.get(getattr(p, "access", None), 0)


class Recorder:
    """records the callback stream; optionally skips blocks (by opening line)
    and raises at a given callback index"""

    def __init__(self, line2id=None, skip_lines=(), raise_at=None, exc=None):
        self.stream = []
        self.locs = []          # state.location at the time of each callback
        self.raw = []           # (name, state, payload)
        self.ids = {}           # id(state) -> block id
        self.keep = []
        self.line2id = line2id or {}
        self.skip_lines = set(skip_lines)
        self.raise_at = raise_at
        self.exc = exc
        self.ncalls = 0
        self.auto = 0

    def _id(self, state):
        return self.ids.get(id(state), -1)

    def __getattr__(self, name):
        if not name.startswith("on_"):
            raise AttributeError(name)

        def cb(state, *payload):
            idx = self.ncalls
            self.ncalls += 1
            if self.raise_at is not None and idx == self.raise_at:
                raise (self.exc or RuntimeError("boom"))
            self.keep.append(state)
            self.locs.append(state.location)
            self.raw.append((name, state, payload[0] if payload else None))
            if name == "on_parse_start":
                self.ids[id(state)] = 0
                self.stream.append(("parse_start", 0))
                return None
            if name in START:
                line = state.location.lineno
                if self.line2id:
                    bid = self.line2id.get(line, -2)
                else:
                    self.auto += 1
                    bid = self.auto
                self.ids[id(state)] = bid
                self.stream.append(("start", START[name], bid, self._id(state.parent)))
                if line in self.skip_lines:
                    return False
                return None
            if name in END:
                self.stream.append(("end", END[name], self._id(state)))
                return None
            self.stream.append(("item", CB_CODE.get(name, 0), self._id(state), payload_access(name, payload[0]) if payload else 0))
            return None
        return cb


def run_real(source, line2id=None, skip_lines=(), raise_at=None, exc=None, options=None):
    """returns (recorder, error or None)"""
    rec = Recorder(line2id, skip_lines, raise_at, exc)
    err = None
    try:
        p = impl.P.CxxParser("<str>", source, rec, options)
        p.parse()
    except Exception as e:  # noqa
        err = e
    return rec, err


def prune_stream(stream, skip_ids):
    """independent Python statement of C05: remove inside + end of skipped blocks"""
    out = []
    depth = 0
    for e in stream:
        if depth == 0:
            out.append(e)
            if e[0] == "start" and e[2] in skip_ids:
                depth = 1
        else:
            if e[0] == "start":
                depth += 1
            elif e[0] == "end":
                depth -= 1
    return out

"""Writes /verif/MANIFEST.json from the property modules that exist."""
import importlib
import json
import os

VERIF = os.path.dirname(os.path.dirname(os.path.abspath(__file__)))
ALL = ["C%02d" % i for i in range(1, 21)]

BASELINE = "cd /repo && /venv/bin/python -m pytest -ra -q -p no:cacheprovider --timeout=900 --continue-on-collection-errors"


def main():
    checks = []
    na = []
    for pid in ALL:
        path = os.path.join(VERIF, "harness", "props", pid.lower() + ".py")
        if not os.path.exists(path):
            na.append({"property_id": pid, "reason": "check not built yet (work in progress; see DESIGN.md section 5 for the planned model and theorems)"})
            continue
        mod = importlib.import_module("harness.props." + pid.lower())
        checks.append({
            "property_id": pid,
            "quick_cmd": "./check %s --tier quick" % pid,
            "thorough_cmd": "./check %s --tier thorough" % pid,
            "evidence_file": "/verif/evidence/%s.json" % pid,
            "replay_cmd_template": "./check %s --replay {path}" % pid,
            "engine": "coq",
            "level_claimed": {
                "category": "proof",
                "text": mod.LEVEL_TEXT,
                "design_ref": "DESIGN.md section 5 (%s) and section 12" % pid,
            },
            "level_note": mod.LEVEL_NOTE,
            "technique": getattr(mod, "TECHNIQUE", "machine-checked proof in Coq 8.16 about an executable model + model/implementation correspondence run + counterexample search"),
        })
    man = {
        "version": 1,
        "setup_cmd": "./setup.sh",
        "hooks": {
            "guard": "CXXHEADERPARSER_VERIF",
            "enable": "no source hooks are needed: all instrumentation is done by wrapping from the harness (subclassing/monkey-patching at run time); the variable is exported by ./check for completeness",
            "baseline_off_cmd": BASELINE,
            "source_commits": [],
            "add_only": True,
        },
        "engines": [
            {"name": "coq", "path": "/verif/coq", "serves_properties": [c["property_id"] for c in checks],
             "kind_free_text": "Coq 8.16.1 development: generated models (coq/Gen, rewritten from /repo on every run by /verif/translate), hand-written models, theorems; Props/Cxx.v hold only statements closed by exact + Print Assumptions"},
            {"name": "ocaml-model", "path": "/verif/coq/Extract", "serves_properties": [c["property_id"] for c in checks],
             "kind_free_text": "models extracted with ExtrOcamlBasic and run on the same cases as the implementation (correspondence)"},
            {"name": "py-harness", "path": "/verif/harness", "serves_properties": [c["property_id"] for c in checks],
             "kind_free_text": "generators, canonicalisation, property oracles run against /repo (search for a concrete failing input), evidence"},
        ],
        "checks": checks,
        "not_applicable": na,
        "notes": "Every check: REGEN (translator) -> PROVE (make + Print Assumptions) -> CORRESPOND (extracted model vs implementation) -> SEARCH (oracle on the implementation) -> verdict. Known findings: /verif/known_findings.json.",
    }
    with open(os.path.join(VERIF, "MANIFEST.json"), "w") as fp:
        json.dump(man, fp, indent=1)
    print("MANIFEST: %d checks, %d not applicable" % (len(checks), len(na)))


if __name__ == "__main__":
    main()

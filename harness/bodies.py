"""Differential runs for whole bodies (Parse/Bodies.v, driver commands 119 / 120): the composed models vs parse_string with a
visitor that records what is delivered, in order."""
from harness import impl, decl
from harness.core import run_driver
from cxxheaderparser import types as T


class Dec:
    def __init__(self, o, names):
        self.o, self.names, self.i = o, names, 0

    def n(self):
        v = self.o[self.i]
        self.i += 1
        return v

    def b(self):
        return bool(self.n())

    def tok(self):
        t, v = self.n(), self.n()
        return self.names.rev[v] if v else impl.TT[t]

    def toks(self):
        return tuple(self.tok() for _ in range(self.n()))

    def opt(self):
        return self.toks() if self.n() else None

    def ty(self):
        ln = self.n()
        t, _ = decl.dec_type(self.o, self.i, self.names)
        self.i += ln
        return t

    def mods(self):
        return [self.b() for _ in range(9)]      # const volatile constexpr extern inline static explicit virtual mutable

    def mtail(self):
        q5 = (self.b(), self.b(), self.b(), self.b(), self.n())
        th = self.opt()
        ne = self.opt()
        return q5 + (th, ne, self.b(), self.b(), self.b(), self.b())

    def name(self, v):
        return self.names.rev.get(v, '?')


def f6(fl):
    return (fl[2], fl[3], fl[4], fl[5], fl[6], fl[7])


def dec_mentries(d, acc, fl, out):
    for _k in range(d.n()):
        if d.n() == 0:
            nm = d.n()
            nm = None if nm == 0 else d.name(nm - 1)
            t = d.ty()
            bits = int(d.name(d.n())) if d.n() else None
            val = d.opt()
            out.append(('field', acc, nm, t, bits, val, (fl[2], fl[8], fl[5], fl[4])))
        else:
            nm, ctor, dtor, has_rt = d.name(d.n()), d.b(), d.b(), d.b()
            t = d.ty()
            q = d.mtail()
            out.append(('method', acc, nm, ctor, dtor, t[1] if has_rt else None, t[2], t[3], q, f6(fl), None))


def dec_citem(d, acc, out):
    kind = d.n()
    fl = d.mods()
    if kind == 0:
        dec_mentries(d, acc, fl, out)
    elif kind == 1:
        t = d.ty()
        q = d.mtail()
        out.append(('method', acc, 'operator', False, False, t[1], t[2], t[3], q, f6(fl), 'conversion'))
    elif kind == 2:
        op = ''.join(d.toks())
        t = d.ty()
        q = d.mtail()
        out.append(('method', acc, 'operator' + op, False, False, t[1], t[2], t[3], q, f6(fl), op))
    else:
        if d.n() == 0:
            b = d.n()
            out.append(('friend-type', acc, 'void' if b == 0 else d.name(b)))
        else:
            nm = d.name(d.n())
            t = d.ty()
            q = d.mtail()
            out.append(('friend-fn', acc, nm, f6(fl), t, q))


def dec_class_items(o, names):
    d = Dec(o, names)
    d.i = 1
    rest, cnt = d.n(), d.n()
    out = []
    for _ in range(cnt):
        acc = impl.TT[d.n()]
        dec_citem(d, acc, out)
    return out, rest


class _ClassRec(impl.SimpleCxxVisitor):
    def __init__(self):
        self.order = []

    def on_class_field(self, state, f):
        self.order.append(('f', f))
        super().on_class_field(state, f)

    def on_class_method(self, state, m):
        self.order.append(('m', m))
        super().on_class_method(state, m)

    def on_class_friend(self, state, fr):
        self.order.append(('fr', fr))
        super().on_class_friend(state, fr)


def _val(x):
    return None if x is None else tuple(t.value for t in x.tokens)


class Other(Exception):
    pass


def _method(o, ty=None):
    ty = ty or decl.from_real
    if (o.has_trailing_return or o.msvc_convention or o.raw_requires or o.template or len(o.name.segments) != 1
            or not isinstance(o.name.segments[0], T.NameSpecifier) or o.name.segments[0].specialization):
        raise decl.Unrepresentable("method extras")
    ps = []
    for q in o.parameters:
        if q.default is not None or q.param_pack:
            raise decl.Unrepresentable("parameter extras")
        ps.append((ty(q.type), q.name))
    rt = None if o.return_type is None else ty(o.return_type)
    q = (o.const, o.volatile, o.override, o.final, {None: 0, '&': 1, '&&': 2}[o.ref_qualifier], _val(o.throw), _val(o.noexcept),
         o.pure_virtual, o.deleted, o.default, o.has_body)
    return rt, tuple(ps), o.vararg, q, (o.constexpr, o.extern, o.inline, o.static, o.explicit, o.virtual)


def class_item(kind, o, ty=None):
    """one delivered class-scope object as the tuple the model side decodes to (Other: outside the comparison)"""
    ty = ty or decl.from_real
    if kind == 'f':
        return ('field', o.access, o.name, ty(o.type), o.bits, _val(o.value), (o.constexpr, o.mutable, o.static, o.inline))
    if kind == 'm':
        rt, ps, va, q, fl = _method(o, ty)
        return ('method', o.access, o.name.segments[0].name, o.constructor, o.destructor, rt, ps, va, q, fl, o.operator)
    if o.cls is not None:
        qn = o.cls.typename
        if o.cls.template or qn.classkey or len(qn.segments) != 1 or not isinstance(qn.segments[0], T.NameSpecifier) or qn.segments[0].specialization:
            raise Other()
        return ('friend-type', o.cls.access, qn.segments[0].name)
    m = o.fn
    if m.operator or m.constructor or m.destructor:
        raise Other()
    rt, ps, va, q, fl = _method(m, ty)
    return ('friend-fn', m.access, m.name.segments[0].name, fl, ('F', rt, ps, va), q)


def real_class_body(key, cls, text):
    v = _ClassRec()
    try:
        impl.P.CxxParser("<str>", "%s %s { %s };" % (key, cls, text), v, None).parse()
    except (impl.CxxParseError, AssertionError, RecursionError):
        return ('err',)
    ns = v.data.namespace
    if len(ns.classes) != 1 or ns.variables or ns.functions or ns.typedefs:
        return ('other',)
    c = ns.classes[0]
    if c.classes or c.typedefs or c.enums or c.using or c.forward_decls or c.using_alias:
        return ('other',)
    if len(v.order) != len(c.fields) + len(c.methods) + len(c.friends):
        return ('other',)
    out = []
    try:
        for kind, o in v.order:
            out.append(class_item(kind, o))
    except (decl.Unrepresentable, Other):
        return ('other',)
    return ('ok', out)


def gen_class_body(rng, cls):
    from harness.props import c03
    toks, budget = [], 1
    for _ in range(rng.choice([1, 2, 3, 4, 6])):
        r = rng.random()
        if r < 0.2:
            toks += [rng.choice(['public', 'private', 'protected']), ':']
        elif r < 0.27:
            toks += [';']
        elif r < 0.34:
            toks += ['static_assert', '(', 'sizeof', '(', 'int', ')', '==', '4', ',', '"m"', ')', ';']
        elif r < 0.7:
            st, n = c03.gen_member_stmt(rng, cls)
            if st[0] in ('inline', 'extern'):
                continue               # (these keywords are dispatched to their own handlers first: outside the composed model)
            toks += st
            budget = max(budget, n)
        elif r < 0.8:
            pre = [rng.choice(['explicit', 'constexpr', 'virtual']) for _ in range(rng.choice([0, 0, 1]))]
            toks += pre + ['operator'] + [rng.choice(['Foo', 'bool_t'])] + rng.choice([[], ['*'], ['&']]) + ['(', ')'] + rng.choice([[], ['const']]) + list(rng.choice(c03.MS_ENDS))
        elif r < 0.9:
            toks += [rng.choice(['Foo', 'void', 'bool_t'])] + rng.choice([[], ['&']]) + ['operator'] + list(rng.choice(c03.OPM_OPS)) + ['(', 'T', 'a', ')'] + rng.choice([[], ['const']]) + list(rng.choice(c03.MS_ENDS))
        else:
            toks += ['friend'] + rng.choice([['Foo', ';'], ['void', 'ff', '(', 'T', ')', ';'], ['Bar', '&', 'get', '(', ')', '{', '}']])
    return toks, budget


def corr_class_bodies(ctx, corr):
    from harness.props import c02
    rng = ctx.rng
    cases = []
    for _ in range(ctx.scale(700, 14000)):
        cls = rng.choice(['Cls', 'S_'])
        key = rng.choice(['struct', 'class'])
        toks, budget = gen_class_body(rng, cls)
        cases.append((key, cls, toks, budget))
        if rng.random() < 0.2:
            mt = [t for t in c02.mutate(rng, toks) if t not in ('}', '{')] or [';']
            cases.append((key, cls, mt, budget + 2))
    lines, nms = [], []
    for key, cls, toks, budget in cases:
        names = decl.Names()
        acc = decl.CODE['public' if key == 'struct' else 'private']
        lines.append([119, len(toks) + 2, budget + 1, names.id(cls), names.id('~' + cls), acc] + decl.enc_tokens(toks + ['}', ';'], names))
        nms.append(names)
    for (key, cls, toks, budget), o, names in zip(cases, run_driver(lines), nms):
        corr.cases += 1
        if o[0] == 0:
            items, rest = dec_class_items(o, names)
            m = ('ok', items, rest)
        else:
            m = ('err', o[1])
        r = real_class_body(key, cls, ' '.join(toks))
        k = "classbody:" + (m[0] if m[0] == 'ok' else 'err%d' % m[1]) + "/" + r[0]
        corr.dist[k] = corr.dist.get(k, 0) + 1
        msg = None
        if m[0] == 'ok' and m[2] == 2:
            if r[0] == 'err':
                msg = "model decodes the class body but the implementation rejects it"
            elif r[0] == 'ok' and r[1] != m[1]:
                msg = "model %s; implementation %s" % (m[1], r[1])
        elif m[0] == 'err' and m[1] in (1, 2, 3) and r[0] == 'ok' and not decl.final_as_name(toks):
            msg = "model rejects (code %d) but the implementation reports %s" % (m[1], r[1])
        elif m[0] == 'err' and m[1] == 9 and r[0] == 'ok':
            msg = "model ran out of fuel"
        if msg:
            corr.disagreements.append(dict(case=dict(kind='corr-classbody', key=key, cls=cls, tokens=toks, budget=budget), model=str(m)[:600], impl=str(r)[:600],
                                           what="class body `%s %s { %s };`: %s" % (key, cls, ' '.join(toks), msg)))


# ---------------------------------------------------------------------------
# namespace bodies

def dec_entries(d, fl4, td, out):
    for _k in range(d.n()):
        kind, nm = d.n(), d.name(d.n())
        t = d.ty()
        if kind == 0:
            val = d.opt()
            out.append(('td', nm, t) if td else ('var', nm, t, val, fl4))
        else:
            th, ne, body, deleted = d.opt(), d.opt(), d.b(), d.b()
            out.append(('tdfn', nm, t, ne) if td else ('fn', nm, t, th, ne, body, deleted, fl4, None))


def dec_nitem(d, out):
    kind = d.n()
    if kind == 0:
        fl = d.mods()
        dec_entries(d, (fl[2], fl[3], fl[4], fl[5]), False, out)
    elif kind == 1:
        fl = d.mods()
        op = ''.join(d.toks())
        t = d.ty()
        th, ne, body, deleted = d.opt(), d.opt(), d.b(), d.b()
        out.append(('fn', 'operator' + op, t, th, ne, body, deleted, (fl[2], fl[3], fl[4], fl[5]), op))
    elif kind == 2:
        fl = d.mods()
        segs = tuple(d.name(d.n()) for _k in range(d.n()))
        t = d.ty()
        q = d.mtail()
        out.append(('mimpl', segs, t, q, (fl[2], fl[3], fl[4], fl[5])))
    else:
        dec_entries(d, None, True, out)


def dec_ns_items(o, names):
    d = Dec(o, names)
    d.i = 1
    rest, cnt = d.n(), d.n()
    out = []
    for _ in range(cnt):
        dec_nitem(d, out)
    return out, rest


class _NsRec(impl.SimpleCxxVisitor):
    def __init__(self):
        self.order = []

    def on_variable(self, state, v):
        self.order.append(('v', v)); super().on_variable(state, v)

    def on_function(self, state, f):
        self.order.append(('f', f)); super().on_function(state, f)

    def on_typedef(self, state, t):
        self.order.append(('t', t)); super().on_typedef(state, t)

    def on_method_impl(self, state, m):
        self.order.append(('m', m)); super().on_method_impl(state, m)


def ns_item(kind, o, ty=None):
    ty = ty or decl.from_real
    if kind == 'v':
        if o.template or len(o.name.segments) != 1:
            raise Other()
        return ('var', o.name.segments[0].name, ty(o.type), _val(o.value), (o.constexpr, o.extern, o.inline, o.static))
    if kind == 't':
        if isinstance(o.type, T.FunctionType):
            ft = o.type
            if ft.has_trailing_return or ft.msvc_convention or any(q.default is not None or q.param_pack for q in ft.parameters):
                raise Other()
            ps = tuple((ty(q.type), q.name) for q in ft.parameters)
            return ('tdfn', o.name, ('F', ty(ft.return_type), ps, ft.vararg), _val(ft.noexcept))
        return ('td', o.name, ty(o.type))
    if kind == 'f':
        if o.has_trailing_return or o.template or o.msvc_convention or o.raw_requires or len(o.name.segments) != 1 or o.name.segments[0].specialization:
            raise Other()
        if any(q.default is not None or q.param_pack for q in o.parameters):
            raise Other()
        ps = tuple((ty(q.type), q.name) for q in o.parameters)
        return ('fn', o.name.segments[0].name, ('F', ty(o.return_type), ps, o.vararg), _val(o.throw), _val(o.noexcept),
                o.has_body, o.deleted, (o.constexpr, o.extern, o.inline, o.static), o.operator)
    if o.operator or o.has_trailing_return or o.template or o.msvc_convention or o.raw_requires or o.constructor or o.destructor:
        raise Other()
    segs = []
    for sg in o.name.segments:
        if not isinstance(sg, T.NameSpecifier) or sg.specialization or sg.name == '':
            raise Other()
        segs.append(sg.name)
    if any(q.default is not None or q.param_pack for q in o.parameters):
        raise Other()
    ps = tuple((ty(q.type), q.name) for q in o.parameters)
    q = (o.const, o.volatile, o.override, o.final, {None: 0, '&': 1, '&&': 2}[o.ref_qualifier], _val(o.throw), _val(o.noexcept),
         o.pure_virtual, o.deleted, o.default, o.has_body)
    return ('mimpl', tuple(segs), ('F', ty(o.return_type), ps, o.vararg), q, (o.constexpr, o.extern, o.inline, o.static))


def real_ns_body(text):
    v = _NsRec()
    try:
        impl.P.CxxParser("<str>", text, v, None).parse()
    except (impl.CxxParseError, AssertionError, RecursionError):
        return ('err',)
    ns = v.data.namespace
    if ns.classes or ns.using_alias or ns.enums or ns.forward_decls or ns.namespaces or ns.using or ns.using_ns:
        return ('other',)
    if len(v.order) != len(ns.variables) + len(ns.functions) + len(ns.typedefs) + len(ns.method_impls):
        return ('other',)
    out = []
    try:
        for kind, o in v.order:
            out.append(ns_item(kind, o))
    except (decl.Unrepresentable, Other):
        return ('other',)
    return ('ok', out)


def gen_ns_body(rng):
    from harness.props import c01, c03
    toks, budget = [], 1
    for _ in range(rng.choice([1, 2, 3, 4, 6])):
        r = rng.random()
        if r < 0.08:
            toks += [';']
        elif r < 0.14:
            toks += ['static_assert', '(', 'sizeof', '(', 'int', ')', '==', '4', ')', ';']
        elif r < 0.6:
            st, n = c01.gen_mixed_stmt(rng)
            if st[0] in ('inline', 'extern'):
                continue
            toks += st
            budget = max(budget, n)
        elif r < 0.72:
            st, n = c01.gen_mixed_stmt(rng, typedef=True)
            toks += ['typedef'] + st
            budget = max(budget, n)
        elif r < 0.86:
            toks += [rng.choice(['Foo', 'void', 'bool_t'])] + rng.choice([[], ['&']]) + ['operator'] + list(rng.choice(c03.OPM_OPS)) + ['(', 'T', 'a', ',', 'T', 'b', ')'] + \
                list(rng.choice(c01.TAIL_SPECS)) + rng.choice([[';'], ['{', '}'], ['=', 'delete', ';']])
        else:
            toks += [rng.choice(['Foo', 'void'])] + rng.choice([[], ['*']]) + [rng.choice(['Cls', 'ns']), '::', rng.choice(['m', 'get'])] + ['(', 'T', 'a', ')'] + \
                rng.choice([[], ['const'], ['noexcept']]) + rng.choice([['{', '}'], ['{', 'return', 'x', '[', '0', ']', ';', '}']])
    return toks, budget


def corr_ns_bodies(ctx, corr):
    from harness.props import c02
    rng = ctx.rng
    cases = []
    for _ in range(ctx.scale(700, 14000)):
        toks, budget = gen_ns_body(rng)
        if not toks:
            continue
        cases.append((toks, budget))
        if rng.random() < 0.2:
            mt = [t for t in c02.mutate(rng, toks) if t not in ('}', '{')] or [';']
            cases.append((mt, budget + 2))
    lines, nms = [], []
    for toks, budget in cases:
        names = decl.Names()
        lines.append([120, len(toks) + 2, budget + 1] + decl.enc_tokens(toks, names))
        nms.append(names)
    for (toks, budget), o, names in zip(cases, run_driver(lines), nms):
        corr.cases += 1
        if o[0] == 0:
            items, rest = dec_ns_items(o, names)
            m = ('ok', items, rest)
        else:
            m = ('err', o[1])
        r = real_ns_body(' '.join(toks))
        k = "nsbody:" + (m[0] if m[0] == 'ok' else 'err%d' % m[1]) + "/" + r[0]
        corr.dist[k] = corr.dist.get(k, 0) + 1
        msg = None
        if m[0] == 'ok' and m[2] == 0:
            if r[0] == 'err':
                msg = "model decodes the declaration sequence but the implementation rejects it"
            elif r[0] == 'ok' and r[1] != m[1]:
                msg = "model %s; implementation %s" % (m[1], r[1])
        elif m[0] == 'err' and m[1] in (1, 2, 3) and r[0] == 'ok' and not decl.final_as_name(toks):
            msg = "model rejects (code %d) but the implementation reports %s" % (m[1], r[1])
        elif m[0] == 'err' and m[1] == 9 and r[0] == 'ok':
            msg = "model ran out of fuel"
        if msg:
            corr.disagreements.append(dict(case=dict(kind='corr-nsbody', tokens=toks, budget=budget), model=str(m)[:600], impl=str(r)[:600],
                                           what="declaration sequence `%s`: %s" % (' '.join(toks), msg)))

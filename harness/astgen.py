"""AST-first generator of namespace-scope headers (C01).

Every generated element knows its source text AND the entry it must produce in
the result; the expected ParsedData is assembled independently of the parser
(base type names come from a hand-written table, declarators from the
independent inner-end printer of harness/decl.py).
"""
from harness import decl

from cxxheaderparser import types as T
from cxxheaderparser import simple as S


def V(*toks):
    return T.Value([T.Token(t) for t in toks])


def fund(n):
    return T.PQName([T.FundamentalSpecifier(n)])


def nm(*parts):
    return T.PQName([T.NameSpecifier(p) for p in parts])


def ty(pq):
    return T.Type(pq)


def spec(name, *args):
    return T.NameSpecifier(name, T.TemplateSpecialization([T.TemplateArgument(a) for a in args]))


# spelling -> independent construction of the PQName it denotes
BASES = {
    'int': lambda: fund('int'),
    'unsigned long': lambda: fund('unsigned long'),
    'long long': lambda: fund('long long'),
    'char': lambda: fund('char'),
    'signed char': lambda: fund('signed char'),
    'unsigned char': lambda: fund('unsigned char'),
    'unsigned': lambda: fund('unsigned'),
    'double': lambda: fund('double'),
    'long int unsigned': lambda: fund('long int unsigned'),
    'char signed': lambda: fund('char signed'),
    'int long long': lambda: fund('int long long'),
    'double long': lambda: fund('double long'),
    'bool': lambda: fund('bool'),
    'void': lambda: fund('void'),
    'Foo': lambda: nm('Foo'),
    'T': lambda: nm('T'),
    'ns::Foo': lambda: nm('ns', 'Foo'),
    '::Bar': lambda: nm('', 'Bar'),
    'a::b::C': lambda: nm('a', 'b', 'C'),
    'std::vector<int>': lambda: T.PQName([T.NameSpecifier('std'), spec('vector', ty(fund('int')))]),
    'std::map<Key, ns::Val*>': lambda: T.PQName([T.NameSpecifier('std'), spec('map', ty(nm('Key')), T.Pointer(ty(nm('ns', 'Val'))))]),
    'std::array<int, 3>': lambda: T.PQName([T.NameSpecifier('std'), spec('array', ty(fund('int')), V('3'))]),
    'Outer<A>::Inner<B, 2>': lambda: T.PQName([spec('Outer', ty(nm('A'))), spec('Inner', ty(nm('B')), V('2'))]),
    'typename T::type': lambda: T.PQName([T.NameSpecifier('T'), T.NameSpecifier('type')], has_typename=True),
    'decltype(x)': lambda: T.PQName([T.DecltypeSpecifier([T.Token('x')])]),
    'struct Tag': lambda: T.PQName([T.NameSpecifier('Tag')], classkey='struct'),
    'enum Color': lambda: T.PQName([T.NameSpecifier('Color')], classkey='enum'),
}
VAR_BASES = [b for b in BASES if b != 'void']


def real_type(t):
    """type tree -> the parser's dataclasses, built without the parser"""
    k = t[0]
    if k == 'B':
        return T.Type(BASES[t[1]](), const=t[2], volatile=t[3])
    if k == 'P':
        return T.Pointer(real_type(t[1]), const=t[2], volatile=t[3])
    if k == 'R':
        return T.Reference(real_type(t[1]))
    if k == 'M':
        return T.MoveReference(real_type(t[1]))
    if k == 'A':
        return T.Array(real_type(t[1]), V(*t[2]) if t[2] else None)
    return T.FunctionType(real_type(t[1]), [T.Parameter(real_type(p), n) for p, n in t[2]], vararg=t[3])


VALUES = [['0'], ['1', '+', '2'], ['nullptr'], ['N'], ['sizeof', '(', 'int', ')'], ['f', '(', '1', ',', '2', ')'], ['"s"'], ["'c'"],
          ['(', 'a', '|', 'b', ')', '<<', '3'], ['{', '1', ',', '2', '}'], ['x', '.', 'y'], ['-', '1'], ['a', '?', 'b', ':', 'c'],
          ['Foo', '(', ')'], ['1.5f'], ['0x10u'], ['ns', '::', 'k']]
ATTRS = ['[[nodiscard]]', '[[deprecated("x")]]', '__attribute__((unused))', '[[gnu::always_inline]]', 'alignas(8)', '__declspec(dllexport)']


def fund_or_name(n):
    return T.FundamentalSpecifier(name=n) if n in ('int', 'char', 'long', 'bool', 'void', 'double') else T.NameSpecifier(name=n)


class Gen:
    def __init__(self, rng, depth=3):
        self.rng = rng
        self.depth = depth
        self.n = 0
        self.anon = 0
        self.lines = []
        self.data = S.ParsedData()
        self.kinds = set()

    def fresh(self, p='v'):
        self.n += 1
        return '%s%d' % (p, self.n)

    # -- types ------------------------------------------------------------
    def rebase(self, t, base=None, allow_void=True):
        rng = self.rng
        k = t[0]
        if k == 'B':
            b = base or rng.choice(VAR_BASES)
            if t[1] == 'void' and allow_void and base is None:
                b = 'void'
            return ('B', b, t[2], t[3])
        if k == 'P':
            return ('P', self.rebase(t[1], base), t[2], t[3])
        if k in 'RM':
            return (k, self.rebase(t[1], base))
        if k == 'A':
            return ('A', self.rebase(t[1], base, allow_void=False), t[2])
        ps = []
        for i, (p, n) in enumerate(t[2]):
            p2 = self.rebase(p)
            ps.append((p2, n))
        return ('F', self.rebase(t[1], base), tuple(ps), t[3])

    def var_type(self, base=None, depth=None):
        while True:
            t = self.rebase(decl.rand_type(self.rng, self.depth if depth is None else depth), base)
            if decl.legal(t) and decl.var_ok(t) and self.params_ok(t):
                return t

    def ret_type(self):
        while True:
            t = self.rebase(decl.rand_type(self.rng, 2))
            if decl.legal(t) and decl.kind(t) in 'BR' and t[0] != 'F' and self.params_ok(t):
                return t

    def params_ok(self, t):
        k = t[0]
        if k == 'B':
            return True
        if k == 'F':
            return self.params_ok(t[1]) and all(decl.var_ok(p) and self.params_ok(p) for p, _ in t[2])
        return self.params_ok(t[1])

    def value(self):
        return list(self.rng.choice(VALUES))

    def attr(self, p=0.2):
        return self.rng.choice(ATTRS) + ' ' if self.rng.random() < p else ''

    # -- elements: each returns source text and applies itself to the scope --
    def variable(self, ns, tmpl=None):
        rng = self.rng
        self.kinds.add('variable')
        if rng.random() < 0.06:
            name = self.fresh('v')
            val = self.value()
            cx = rng.random() < 0.5
            ns.variables.append(T.Variable(name=nm(name), type=T.Type(T.PQName([T.AutoSpecifier()])), value=V(*val), constexpr=cx))
            return ('constexpr ' if cx else '') + 'auto ' + name + ' = ' + ' '.join(val) + ';'
        specs = rng.choice([[], [], ['static'], ['extern'], ['constexpr'], ['inline'], ['static', 'constexpr'], ['inline', 'constexpr'], ['constexpr', 'static']])
        base = rng.choice(VAR_BASES)
        bc, bv = rng.random() < 0.2, rng.random() < 0.05
        n = rng.choice([1, 1, 1, 2, 3])
        parts = []
        for i in range(n):
            t = self.var_type(base, rng.choice([0, 1, 2, self.depth]))
            b, ls = decl.layers(t)
            t = self.with_base_cv(t, bc, bv)
            name = self.fresh('v')
            d = decl.print_layers(ls, [name])
            val = None
            r = rng.random()
            if r < 0.3:
                val = self.value()
                d = d + ['='] + val
            elif r < 0.4:
                val = ['{', '1', '}']
                d = d + val
            parts.append(' '.join(d))
            ns.variables.append(T.Variable(name=nm(name), type=real_type(t), value=V(*val) if val else None,
                                           constexpr='constexpr' in specs, extern='extern' in specs, static='static' in specs,
                                           inline='inline' in specs))
        if n > 1:
            self.kinds.add('multi-declarator')
        head = ' '.join(specs + (['const'] if bc else []) + (['volatile'] if bv else []) + [base])
        return self.attr(0.1) + head + ' ' + ', '.join(parts) + ';'

    def with_base_cv(self, t, c, v):
        k = t[0]
        if k == 'B':
            return ('B', t[1], c, v)
        if k == 'P':
            return ('P', self.with_base_cv(t[1], c, v), t[2], t[3])
        if k in 'RM':
            return (k, self.with_base_cv(t[1], c, v))
        if k == 'A':
            return ('A', self.with_base_cv(t[1], c, v), t[2])
        return ('F', self.with_base_cv(t[1], c, v), t[2], t[3])

    def params(self, abbreviated=False):
        rng = self.rng
        ps, texts = [], []
        self.at_params = []          # invented template parameters of `auto` / `Concept auto` parameters, in order
        for i in range(rng.choice([0, 0, 1, 1, 2, 3])):
            if abbreviated and rng.random() < 0.3:
                self.kinds.add('abbreviated template parameter')
                concept = rng.choice([None, None, 'Cpt', 'ns::Cpt'])
                name = rng.choice([None, 'p%d' % i])
                ref = rng.choice(['', '', ' &', ' const &', ' *', ' &&'])
                pre = ''
                if ref in ('', ' &', ' *') and rng.random() < 0.3 and not concept:
                    pre = rng.choice(['const ', 'volatile '])        # cv-qualifier before the placeholder
                auto_t = T.Type(T.PQName([T.AutoSpecifier()]), const=pre == 'const ', volatile=pre == 'volatile ')
                pt = auto_t
                if ref == ' &':
                    pt = T.Reference(auto_t)
                elif ref == ' const &':
                    auto_t.const = True
                    pt = T.Reference(auto_t)
                elif ref == ' *':
                    pt = T.Pointer(auto_t)
                elif ref == ' &&':
                    pt = T.MoveReference(auto_t)
                ps.append(T.Parameter(type=pt, name=name))
                texts.append(pre + (concept + ' ' if concept else '') + 'auto' + ref + (' ' + name if name else ''))
                tt = T.Type(BASES['Foo']()) if False else (T.Type(nm(*concept.split('::'))) if concept else T.Type(T.PQName([T.AutoSpecifier()])))
                self.at_params.append(T.TemplateNonTypeParam(type=tt, param_idx=i))
                continue
            t = self.var_type(depth=rng.choice([0, 1, 2]))
            name = rng.choice([None, 'p%d' % i])
            d = decl.print_decl(t, name)
            default = None
            if rng.random() < 0.25:
                default = self.value()
                if default[0] == '{':
                    default = ['0']
                d = d + ['='] + default
            ps.append(T.Parameter(type=real_type(t), name=name, default=V(*default) if default else None))
            texts.append(' '.join(d))
        va = rng.random() < 0.1
        if va:
            texts.append('...')
        return ps, va, ', '.join(texts)

    def function(self, ns, tmpl=None, tmpl_text=''):
        rng = self.rng
        self.kinds.add('function')
        specs = rng.choice([[], [], ['static'], ['inline'], ['constexpr'], ['extern'], ['static', 'inline'], ['inline', 'constexpr']])
        name = self.fresh('f')
        op = None
        if tmpl is None and rng.random() < 0.1:
            op = rng.choice(['==', '+', '<<', '()', '[]', '!=', '->', '*', '+=', '<=', '&&', '~'])
            name = 'operator' + op
            self.kinds.add('operator function')
        ps, va, ptxt = self.params(abbreviated=True)
        if self.at_params:
            if tmpl is None:
                tmpl = T.TemplateDecl(params=list(self.at_params))
            else:
                tmpl.params.extend(self.at_params)
        trailing = rng.random() < 0.15
        rt = self.ret_type()
        while tmpl is not None and tmpl.raw_requires_pre is not None and decl.layers(rt)[0][1].startswith('::'):
            rt = self.ret_type()        # `requires C<T> ::Bar f()` would continue the constraint's name
        fn = T.Function(return_type=real_type(rt), name=nm(name), parameters=ps, vararg=va,
                        constexpr='constexpr' in specs, extern='extern' in specs, static='static' in specs, inline='inline' in specs,
                        template=tmpl, operator=op)
        linkage = ''
        if tmpl is None and 'extern' not in specs and 'static' not in specs and rng.random() < 0.08:
            linkage = 'extern "C" '
            fn.extern = True
            self.kinds.add('extern "C" declaration')
        tail = ''
        r = rng.random()
        if r < 0.2:
            tail += ' noexcept'
            fn.noexcept = V()
        elif r < 0.3:
            tail += ' noexcept(' + ' '.join(['sizeof', '(', 'int', ')', '==', '4']) + ')'
            fn.noexcept = V('sizeof', '(', 'int', ')', '=', '=', '4')
        elif r < 0.35:
            tail += ' throw()'
            fn.throw = V()
        req = ''
        if tmpl is not None and rng.random() < 0.3:
            # a trailing requires-clause (only on templates): any clause shape, behind the exception specification and behind a
            # trailing return type (F37), in front of any ending -- ';', a body, `= delete`
            c = self.requires_clause()
            fn.raw_requires = V(*c)
            req = ' requires ' + ' '.join(c)
            self.kinds.add('trailing requires clause')
        if trailing:
            b, ls = decl.layers(rt)
            head = ' '.join(specs + ['auto', name]) + '(' + ptxt + ')' + tail + ' -> ' + ' '.join(decl.print_decl(rt, None)) + req
            fn.has_trailing_return = True
        else:
            ft = ('F', rt, (), False)
            b, ls = decl.layers(rt)
            # print the function declarator around `name(params)` by hand: the parameter text carries defaults
            conv = self.convention(rt) if op is None else None
            fn.msvc_convention = conv
            core = [(conv + ' ' if conv else '') + name + '(' + ptxt + ')']
            head = ' '.join(specs + decl.base_tokens(b) + decl.print_layers(ls, core)) + tail + req
            self.kinds.add('function returning ' + rt[0])
        e = rng.random()
        if e < 0.3:
            body = rng.choice(['{}', '{ return 0; }', '{ if (a < b) { x(); } }', '{ int y[3] = {1, 2, 3}; }'])
            fn.has_body = True
            text = head + ' ' + body
            self.kinds.add('function with body')
        elif e < 0.38:
            text = head + ' = delete;'
            fn.deleted = True
        else:
            text = head + ';'      # (a GNU attribute after the declarator is not a supported position: parse error)
        ns.functions.append(fn)
        return tmpl_text + self.attr(0.15) + linkage + text

    def convention(self, rt, p=0.15):
        """an MSVC calling convention, written between the return type and the name; only where the function declarator is not grouped"""
        b, ls = decl.layers(rt)
        if self.rng.random() < p and all(l[0] in 'PRM' for l in ls):
            self.kinds.add('calling convention')
            return self.rng.choice(['__stdcall', '__cdecl', '__fastcall', '__vectorcall'])
        return None

    def attr2(self):
        return ' __attribute__((noreturn))' if self.rng.random() < 0.08 else ''

    def method_impl(self, ns):
        rng = self.rng
        self.kinds.add('method definition')
        cls = rng.choice(['Cls', 'ns2::Cls'])
        segs = cls.split('::')
        kind = rng.choice(['m', 'm', 'ctor', 'dtor'])
        if rng.random() < 0.3:
            return self.templated_method_impl(ns)
        ps, va, ptxt = self.params()
        if kind == 'm':
            name = self.fresh('m')
            rt = self.ret_type()
            b, ls = decl.layers(rt)
            const = rng.random() < 0.4
            conv = self.convention(rt, 0.3)
            core = [(conv + ' ' if conv else '') + cls + '::' + name + '(' + ptxt + ')']
            text = ' '.join(decl.base_tokens(b) + decl.print_layers(ls, core)) + (' const' if const else '') + ' {}'
            ns.method_impls.append(T.Method(return_type=real_type(rt), name=nm(*(segs + [name])), parameters=ps, vararg=va, has_body=True, const=const,
                                            msvc_convention=conv))
        elif kind == 'ctor':
            text = cls + '::' + segs[-1] + '(' + ptxt + ') : a_(1), b_{2} {}'
            ns.method_impls.append(T.Method(return_type=None, name=nm(*(segs + [segs[-1]])), parameters=ps, vararg=va, has_body=True, constructor=True))
        else:
            text = cls + '::~' + segs[-1] + '() {}'
            ns.method_impls.append(T.Method(return_type=None, name=nm(*(segs + ['~' + segs[-1]])), parameters=[], has_body=True, destructor=True))
        return text

    def templated_method_impl(self, ns):
        """out-of-class definition of a member (template) of a class template: one header per level"""
        rng = self.rng
        self.kinds.add('templated method definition')
        nheaders = rng.choice([1, 2, 2, 3])
        headers, txt = [], ''
        for i in range(nheaders):
            pn = 'K%d' % i
            headers.append(T.TemplateDecl(params=[T.TemplateTypeParam(typekey='typename', name=pn)]))
            txt += 'template <typename %s> ' % pn
        cls_seg = spec('Table', ty(nm('K0')))
        segs = [cls_seg]
        cls_txt = 'Table<K0>'
        if nheaders == 3:
            segs.append(spec('Row', ty(nm('K1'))))
            cls_txt += '::Row<K1>'
        name = self.fresh('m')
        ps, va, ptxt = self.params(abbreviated=True)
        headers[-1].params.extend(self.at_params)
        rt = self.ret_type()
        b, ls = decl.layers(rt)
        const = rng.random() < 0.4
        conv = self.convention(rt, 0.3)
        core = [(conv + ' ' if conv else '') + cls_txt + '::' + name + '(' + ptxt + ')']
        text = txt + ' '.join(decl.base_tokens(b) + decl.print_layers(ls, core)) + (' const' if const else '') + ' {}'
        ns.method_impls.append(T.Method(return_type=real_type(rt), name=T.PQName(segs + [T.NameSpecifier(name)]), parameters=ps, vararg=va,
                                        has_body=True, const=const, template=headers[0] if nheaders == 1 else headers, msvc_convention=conv))
        return text

    def typedef(self, ns):
        rng = self.rng
        self.kinds.add('typedef')
        if rng.random() < 0.12:
            # function types written with trailing return types, several declarators in one statement: every declarator is
            # reported, and the statement goes on behind each of them
            parts = []
            for i in range(rng.choice([1, 2, 3])):
                name = self.fresh('td')
                pt, rt = rng.choice(['int', 'char', 'Foo']), rng.choice(['long', 'bool', 'Foo'])
                parts.append('%s(%s) -> %s' % (name, pt, rt))
                ft = T.FunctionType(return_type=T.Type(typename=T.PQName(segments=[fund_or_name(rt)])),
                                    parameters=[T.Parameter(type=T.Type(typename=T.PQName(segments=[fund_or_name(pt)])))], has_trailing_return=True)
                ns.typedefs.append(T.Typedef(type=ft, name=name))
            return 'typedef auto ' + ', '.join(parts) + ';'
        base = rng.choice(VAR_BASES)
        n = rng.choice([1, 1, 2])
        parts = []
        for i in range(n):
            while True:
                t = self.rebase(decl.rand_type(rng, rng.choice([0, 1, 2, self.depth])), base)
                if decl.legal(t) and not decl.is_void(t) and self.params_ok(t):
                    break
            t = self.with_base_cv(t, False, False)
            b, ls = decl.layers(t)
            name = self.fresh('td')
            parts.append(' '.join(decl.print_layers(ls, [name])))
            ns.typedefs.append(T.Typedef(type=real_type(t), name=name))
        return 'typedef ' + base + ' ' + ', '.join(parts) + ';'

    def using(self, ns, tmpl=None, tmpl_text=''):
        rng = self.rng
        r = rng.random()
        if tmpl is not None or r < 0.4:
            self.kinds.add('using alias')
            name = self.fresh('A')
            while True:
                t = self.rebase(decl.rand_type(rng, rng.choice([0, 1, 2, self.depth])))
                if decl.legal(t) and not decl.is_void(t) and t[0] != 'F' and self.params_ok(t):
                    break
            ns.using_alias.append(T.UsingAlias(alias=name, type=real_type(t), template=tmpl))
            return tmpl_text + 'using ' + name + ' = ' + ' '.join(decl.print_decl(t, None)) + ';'
        if r < 0.7:
            self.kinds.add('using directive')
            path = rng.choice(['a', 'a::b', '::c::d', 'std'])
            ns.using_ns.append(S.UsingNamespace(path))
            return 'using namespace ' + path + ';'
        self.kinds.add('using declaration')
        path = rng.choice([['a', 'x'], ['a', 'b', 'y'], ['', 'g']])
        ns.using.append(T.UsingDecl(typename=nm(*path)))
        return 'using ' + '::'.join(path) + ';'

    def enum(self, ns):
        rng = self.rng
        self.kinds.add('enum')
        key = rng.choice(['enum', 'enum class', 'enum struct'])
        anon = key == 'enum' and rng.random() < 0.2
        if anon:
            self.anon += 1
            seg = T.AnonymousName(self.anon)
            name = ''
        else:
            name = self.fresh('E')
            seg = T.NameSpecifier(name)
        base = rng.choice([None, None, 'int', 'unsigned char', 'ns::Foo'])
        vals, txt = [], []
        for i in range(rng.choice([0, 1, 2, 4])):
            en = self.fresh('K')
            v = None
            if rng.random() < 0.4:
                v = rng.choice([['1'], ['1', '<<', '2'], ['(', 'A', '|', 'B', ')'], ['sizeof', '(', 'int', ')'], ["'x'"]])
            vals.append(T.Enumerator(name=en, value=V(*v) if v else None))
            at = ''
            if rng.random() < 0.25:
                at = ' ' + rng.choice(['[[deprecated]]', '[[maybe_unused]]', '[[deprecated("x")]] [[maybe_unused]]'])
                self.kinds.add('attributed enumerator')
            txt.append(en + at + (' = ' + ' '.join(v) if v else ''))
        trailing_comma = ',' if txt and rng.random() < 0.3 else ''
        ns.enums.append(T.EnumDecl(typename=T.PQName([seg], classkey=key), values=vals, base=BASES[base]() if base else None))
        lead, tail = '', ''
        if rng.random() < 0.3:
            # declarators of the enum type behind the closing brace; cv-qualifiers in front of the key or behind the brace
            # belong to the type of every one of them
            self.kinds.add('enum with declarators')
            lc, lv = rng.random() < 0.3, rng.random() < 0.15
            tc = (not lc) and rng.random() < 0.3
            static = rng.random() < 0.2
            lead = ('static ' if static else '') + ('const ' if lc else '') + ('volatile ' if lv else '')
            parts = []
            for i in range(rng.choice([1, 2, 3])):
                while True:
                    t = decl.rand_type(rng, rng.choice([0, 0, 1, 2]))
                    if decl.legal(t) and decl.var_ok(t) and decl.kind(t) != 'F' and not any(l[0] == 'F' for l in decl.layers(t)[1]):
                        break
                b, ls = decl.layers(t)
                vn = self.fresh('v')
                parts.append(' '.join(decl.print_layers(ls, [vn])))
                rt = real_type(self.rebase(t, 'Foo'))
                node = rt
                while not isinstance(node, T.Type):
                    node = getattr(node, 'ptr_to', None) or getattr(node, 'ref_to', None) or getattr(node, 'moveref_to', None) or getattr(node, 'array_of', None)
                node.typename = T.PQName([seg], classkey=key)
                node.const, node.volatile = lc or tc, lv
                ns.variables.append(T.Variable(name=nm(vn), type=rt, static=static))
            tail = (' const' if tc else '') + ' ' + ', '.join(parts)
        return lead + key + (' ' + name if name else '') + (' : ' + base if base else '') + ' { ' + ', '.join(txt) + trailing_comma + ' }' + tail + ';'

    def forward(self, ns, tmpl=None, tmpl_text=''):
        rng = self.rng
        self.kinds.add('forward declaration')
        if tmpl is None and rng.random() < 0.3:
            name = self.fresh('FE')
            key = rng.choice(['enum', 'enum class'])
            base = rng.choice(['int', 'unsigned char']) if key == 'enum' or rng.random() < 0.5 else None
            ns.forward_decls.append(T.ForwardDecl(typename=T.PQName([T.NameSpecifier(name)], classkey=key), enum_base=BASES[base]() if base else None))
            return key + ' ' + name + (' : ' + base if base else '') + ';'
        key = rng.choice(['struct', 'class', 'union'])
        name = self.fresh('FS')
        ns.forward_decls.append(T.ForwardDecl(typename=T.PQName([T.NameSpecifier(name)], classkey=key), template=tmpl))
        return tmpl_text + key + ' ' + name + ';'

    def ns_alias(self, ns):
        self.kinds.add('namespace alias')
        name = self.fresh('na')
        path = self.rng.choice([['a'], ['a', 'b'], ['::', 'c', 'd']])      # documented: may include a leading '::'
        ns.ns_alias.append(T.NamespaceAlias(alias=name, names=path))
        return 'namespace ' + name + ' = ' + '::'.join(path).replace('::::', '::') + ';'

    def template_header(self, fn_only=False):
        rng = self.rng
        self.kinds.add('template header')
        ps, txt = [], []
        for i in range(rng.choice([1, 1, 2, 3])):
            r = rng.random()
            pn = rng.choice([None, 'T%d' % i])
            if r < 0.5:
                key = rng.choice(['typename', 'class'])
                pack = rng.random() < 0.2
                default = None
                if not pack and pn and rng.random() < 0.25:
                    default = rng.choice([['int'], ['std', '::', 'vector', '<', 'int', '>'], ['void']])
                ps.append(T.TemplateTypeParam(typekey=key, name=pn, param_pack=pack, default=V(*default) if default else None))
                txt.append(key + ('...' if pack else '') + (' ' + pn if pn else '') + (' = ' + ' '.join(default) if default else ''))
            elif r < 0.85:
                b = rng.choice(['int', 'unsigned long', 'bool', 'Foo', 'char'])
                ptr = rng.random() < 0.2
                t = ('P', ('B', b, False, False), False, False) if ptr else ('B', b, False, False)
                default = None
                if pn and rng.random() < 0.3:
                    default = rng.choice([['3'], ['N', '+', '1'], ['true'], ['(', 'a', '>', 'b', ')']])
                ps.append(T.TemplateNonTypeParam(type=real_type(t), name=pn, default=V(*default) if default else None))
                txt.append(' '.join(decl.print_decl(t, pn)) + (' = ' + ' '.join(default) if default else ''))
            else:
                inner = T.TemplateDecl(params=[T.TemplateTypeParam(typekey='typename')])
                ps.append(T.TemplateTypeParam(typekey='class', name=pn, template=inner))
                txt.append('template <typename> class' + (' ' + pn if pn else ''))
        td = T.TemplateDecl(params=ps)
        text = 'template <' + ', '.join(txt) + '> '
        if fn_only and rng.random() < 0.15:
            self.kinds.add('requires clause')
            c = self.requires_clause()
            td.raw_requires_pre = V(*c)
            text += 'requires ' + ' '.join(c) + ' '
        return td, text

    REQ_PRIMARIES = [['C', '<', 'T', '>'], ['(', 'sizeof', '(', 'T', ')', '>', '1', ')'], ['Addable', '<', 'T', '>'], ['(', 'B', '<', 'T', '>', ')'],
                     ['is_small', '<', 'T', ',', '4', '>'], ['(', 'A', '<', 'T', '>', '&&', 'B', '<', 'T', '>', ')'], ['K'],
                     ['decltype', '(', 'x', ')', '::', 'value'], ['(', 'a', ',', 'b', ')']]

    def requires_clause(self):
        """a constraint-logical-or-expression of the forms the parser documents: primaries (a parenthesized expression or a
        possibly specialized name) joined by && / ||, or `requires (...) {...}`.  Names are unqualified here: F29 (the '::'
        inside a name is dropped from the value) is a known finding with its own witness."""
        rng = self.rng
        if rng.random() < 0.12:
            return ['requires', '(', 'T', 't', ')', '{', 't', '.', 'x', ';', '}']
        c = list(rng.choice(self.REQ_PRIMARIES))
        if c[0] == 'decltype':
            c = ['K']       # (a qualified name: F29)
        for _ in range(rng.choice([0, 0, 1, 1, 2])):
            nxt = list(rng.choice(self.REQ_PRIMARIES))
            if nxt[0] == 'decltype':
                nxt = ['K']
            c += [rng.choice(['&&', '||'])] + nxt
        return c

    def templated(self, ns):
        r = self.rng.random()
        tmpl, txt = self.template_header(fn_only=r < 0.5)
        if r < 0.5:
            return self.function(ns, tmpl, txt)
        if r < 0.75:
            return self.using(ns, tmpl, txt)
        return self.forward(ns, tmpl, txt)

    def concept(self, ns):
        self.kinds.add('concept')
        tmpl, txt = self.template_header()
        name = self.fresh('C')
        c = self.rng.choice([['true'], ['sizeof', '(', 'T', ')', '>', '1'], ['requires', '(', 'T', 't', ')', '{', 't', '.', 'x', ';', '}'],
                             ['std', '::', 'is_same_v', '<', 'T', ',', 'int', '>', '||', 'other', '<', 'T', '>']])
        ns.concepts.append(T.Concept(template=tmpl, name=name, raw_constraint=V(*c)))
        return txt + 'concept ' + name + ' = ' + ' '.join(c) + ';'

    def template_inst(self, ns):
        self.kinds.add('explicit instantiation')
        ext = self.rng.random() < 0.4
        key = self.rng.choice(['class', 'struct'])
        name, seg = self.rng.choice([('X<int>', [spec('X', ty(fund('int')))]),
                                     ('ns::Y<char, 2>', [T.NameSpecifier('ns'), spec('Y', ty(fund('char')), V('2'))]),
                                     ('Z<Foo*, const int>', [spec('Z', T.Pointer(ty(nm('Foo'))), T.Type(fund('int'), const=True))])])
        ns.template_insts.append(T.TemplateInst(typename=T.PQName(seg), extern=ext))
        return ('extern ' if ext else '') + 'template ' + key + ' ' + name + ';'

    def deduction_guide(self, ns):
        self.kinds.add('deduction guide')
        tmpl, txt = T.TemplateDecl(params=[T.TemplateTypeParam(typekey='typename', name='T')]), 'template <typename T> '
        name = self.fresh('DG')
        ps, va, ptxt = self.params()
        if va:
            ptxt = ptxt.rsplit('...', 1)[0].rstrip().rstrip(',')
        res = T.Type(T.PQName([spec(name, T.Pointer(ty(nm('T'))))]))
        ns.deduction_guides.append(T.DeductionGuide(result_type=res, name=nm(name), parameters=ps))
        return txt + name + '(' + ptxt + ') -> ' + name + '<T*>;'

    def decoration(self, ns):
        self.kinds.add('decoration')
        return self.rng.choice(['static_assert(sizeof(int) == 4, "int is 4 {bytes}");', 'static_assert(true);', ';',
                                'static_assert(N < (3 > 2), "x");'])

    def preproc(self, ns):
        rng = self.rng
        if rng.random() < 0.5:
            self.kinds.add('#include')
            f = rng.choice(['<a.h>', '"b/c.h"', '<sys/types.h>'])
            self.data.includes.append(S.Include(f))
            return '\n#include ' + f + '\n'
        self.kinds.add('#pragma')
        c = rng.choice([['once'], ['pack', '(', 'push', ',', '1', ')'], ['GCC', 'diagnostic', 'ignored', '"-Wall"']])
        self.data.pragmas.append(S.Pragma(V(*c)))
        return '\n#pragma ' + ' '.join(c) + '\n'

    # -- scopes -------------------------------------------------------------
    def child(self, ns, names, inline):
        for n in names:
            if n not in ns.namespaces:
                ns.namespaces[n] = S.NamespaceScope(name=n)
            ns = ns.namespaces[n]
        if inline:
            ns.inline = True
        return ns

    def body(self, ns, budget, level):
        rng = self.rng
        out = []
        while budget > 0:
            r = rng.random()
            budget -= 1
            decl.CV_STYLE = rng.choice([0, 0, 1, 2])       # where const / volatile are written in this item's specifier sequences
            if r < 0.22:
                out.append(self.variable(ns))
            elif r < 0.40:
                out.append(self.function(ns))
            elif r < 0.46:
                out.append(self.method_impl(ns))
            elif r < 0.53:
                out.append(self.typedef(ns))
            elif r < 0.61:
                out.append(self.using(ns))
            elif r < 0.67:
                out.append(self.enum(ns))
            elif r < 0.72:
                out.append(self.forward(ns))
            elif r < 0.75:
                out.append(self.ns_alias(ns))
            elif r < 0.82:
                out.append(self.templated(ns))
            elif r < 0.84:
                out.append(self.concept(ns))
            elif r < 0.86:
                out.append(self.template_inst(ns))
            elif r < 0.88:
                out.append(self.deduction_guide(ns))
            elif r < 0.91:
                out.append(self.decoration(ns))
            elif r < 0.94:
                out.append(self.preproc(ns))
            elif level < 3:
                sub = rng.randint(0, min(budget, 5))
                budget -= sub
                if rng.random() < 0.7:
                    self.kinds.add('namespace')
                    names = rng.choice([['n1'], ['n2'], ['n1', 'in'], [''], ['v1']])
                    inline = names == ['v1']
                    inner = self.child(ns, names, inline)
                    head = ('inline ' if inline else '') + 'namespace ' + '::'.join(names) + (' ' if names != [''] else '')
                    if names == ['']:
                        head = 'namespace '
                    out.append(head + '{\n' + self.body(inner, sub, level + 1) + '\n}')
                else:
                    self.kinds.add('extern block')
                    out.append('extern "C" {\n' + self.body(ns, sub, level + 1) + '\n}')
        return '\n'.join(out)

    def program(self, budget):
        try:
            src = self.body(self.data.namespace, budget, 0)
        finally:
            decl.CV_STYLE = 0
        return src + '\n'


def first_diff(a, b, path='data'):
    """path of the first difference between two result trees"""
    import dataclasses
    if type(a) != type(b):
        return '%s: %s vs %s' % (path, type(a).__name__, type(b).__name__)
    if dataclasses.is_dataclass(a):
        for f in dataclasses.fields(a):
            if not f.compare:
                continue
            d = first_diff(getattr(a, f.name), getattr(b, f.name), path + '.' + f.name)
            if d:
                return d
        return None
    if isinstance(a, list):
        if len(a) != len(b):
            return '%s: %d entries expected, %d reported' % (path, len(a), len(b))
        for i, (x, y) in enumerate(zip(a, b)):
            d = first_diff(x, y, '%s[%d]' % (path, i))
            if d:
                return d
        return None
    if isinstance(a, dict):
        if list(a.keys()) != list(b.keys()):
            return '%s: keys %r expected, %r reported' % (path, list(a.keys()), list(b.keys()))
        for k in a:
            d = first_diff(a[k], b[k], '%s[%r]' % (path, k))
            if d:
                return d
        return None
    if a != b:
        return '%s: %r expected, %r reported' % (path, a, b)
    return None
